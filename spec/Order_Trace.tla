----------------------------- MODULE Order_Trace -----------------------------
(* Trace validation for the location order: one event = a list of locations     *)
(* materialised as real features of one kind ("feature": plain features,        *)
(* "area": CDS collections) with the observed matrix lt[i][j] = (item i <      *)
(* item j) of the real comparison; or (op "insert") the numbers a real Record   *)
(* gives the same areas for several insertion orders.                           *)
EXTENDS Order, TLC, Json, IOUtils
VARIABLE l
Trace == ndJsonDeserialize(IOEnv.TRACE_FILE)

InsertFailed(ev) ==
    (* orders : Seq(Seq(index into items)) = the record's list after adding the items in different orders *)
    LET R == [L |-> ev.L, circ |-> ev.circ]
        I == DOMAIN ev.items
        (* every pair of items has a stated order: then there is exactly one sorted list *)
        decided == \A i, j \in I : i # j => MustBefore(R, ev.kind, ev.items[i], ev.items[j]) \/ MustBefore(R, ev.kind, ev.items[j], ev.items[i])
    IN  (IF decided /\ \E k \in DOMAIN ev.orders : ev.orders[k] # ev.orders[1] THEN {"numbers_independent_of_insertion_order"} ELSE {})
        \cup (IF \E k \in DOMAIN ev.orders : {ev.orders[k][i] : i \in DOMAIN ev.orders[k]} # I \/ Len(ev.orders[k]) # Len(ev.items)
              THEN {"every_item_listed_once"} ELSE {})
        \cup (IF \E k \in DOMAIN ev.orders : \E i, j \in DOMAIN ev.orders[k] :
                    i < j /\ MustBefore(R, ev.kind, ev.items[ev.orders[k][j]], ev.items[ev.orders[k][i]])
              THEN {"numbered_in_location_order"} ELSE {})
Failed(ev) ==
    IF ev.exc # "" THEN {ev.op \o "/no_exception:" \o ev.exc}
    ELSE IF ev.op = "compare"
         THEN {"compare_" \o ev.kind \o "/" \o c : c \in OrderLawsFailed([L |-> ev.L, circ |-> ev.circ], ev.kind, ev.items, ev.lt)}
         ELSE {"insert_" \o ev.kind \o "/" \o c : c \in InsertFailed(ev)}

Init == l = 1
Step == /\ l <= Len(Trace)
        /\ \A c \in Failed(Trace[l]) : PrintT(<<"REJECT", Trace[l].id, c>>)
        /\ l' = l + 1
Done == l = Len(Trace) + 1 /\ PrintT(<<"DONE", Len(Trace)>>) /\ l' = l + 1
Next == Step \/ Done
Spec == Init /\ [][Next]_l
=============================================================================
