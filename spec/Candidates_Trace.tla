--------------------------- MODULE Candidates_Trace ---------------------------
(* Trace validation for C05: one event = one arrangement of protoclusters run     *)
(* through Record.create_candidate_clusters() in several input orders; runs[k]    *)
(* is [exc, v : Seq(candidate)] with members numbered as in ev.arr.               *)
EXTENDS Candidates, TLC, Json, IOUtils
VARIABLE l
Trace == ndJsonDeserialize(IOEnv.TRACE_FILE)

Failed(ev) ==
    UNION {IF ev.runs[k].exc # "" THEN {"candidates/no_exception:" \o ev.runs[k].exc}
           ELSE {"candidates/" \o c : c \in CandFailed(ev.arr, ev.runs[k].v)} : k \in DOMAIN ev.runs}
    \cup (IF \E j, k \in DOMAIN ev.runs : ev.runs[j].exc = "" /\ ev.runs[k].exc = "" /\ Canon(ev.runs[j].v) # Canon(ev.runs[k].v)
          THEN {"candidates/independent_of_input_order"} ELSE {})

Init == l = 1
Step == /\ l <= Len(Trace)
        /\ \A c \in Failed(Trace[l]) : PrintT(<<"REJECT", Trace[l].id, c>>)
        /\ l' = l + 1
Done == l = Len(Trace) + 1 /\ PrintT(<<"DONE", Len(Trace)>>) /\ l' = l + 1
Next == Step \/ Done
Spec == Init /\ [][Next]_l
=============================================================================
