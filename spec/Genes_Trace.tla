----------------------------- MODULE Genes_Trace -----------------------------
(* Trace validation for C08 (lookup): one event = one gene layout with the       *)
(* observed results of get_cds_features_within_location for a list of queries.   *)
EXTENDS Genes, TLC, Json, IOUtils
VARIABLE l
Trace == ndJsonDeserialize(IOEnv.TRACE_FILE)

QueryFailed(ev, k) ==
    LET qu == ev.queries[k]
        R == [L |-> ev.L, circ |-> ev.circ]
        op == IF qu.ov THEN "overlapping" ELSE "within"
    IN  IF qu.ret.exc # "" THEN {op \o "/no_exception:" \o qu.ret.exc}
        ELSE {op \o "/" \o c : c \in LookupFailed(R, ev.genes, qu.q, qu.ov, qu.ret.v)}
(* one REJECT per failed (query index, clause): the clause carries the query index so that the harness can
   name the exact abstract input *)
Failed(ev) == UNION {{c \o "@" \o ToString(k) : c \in QueryFailed(ev, k)} : k \in DOMAIN ev.queries}

Init == l = 1
Step == /\ l <= Len(Trace)
        /\ \A c \in Failed(Trace[l]) : PrintT(<<"REJECT", Trace[l].id, c>>)
        /\ l' = l + 1
Done == l = Len(Trace) + 1 /\ PrintT(<<"DONE", Len(Trace)>>) /\ l' = l + 1
Next == Step \/ Done
Spec == Init /\ [][Next]_l
=============================================================================
