----------------------------- MODULE RecordIds -----------------------------
(***************************************************************************)
(* Property C16: record identifiers after input pre-processing are unique,   *)
(* short and free of characters unusable in file names / GenBank headers;     *)
(* a changed record remembers its original identifier; gene identifiers are   *)
(* unique within a record or the record is rejected.                          *)
(*                                                                           *)
(* TLC strings are opaque, so identifiers are sequences of character codes.   *)
(* A record is [id, name, orig, no]: orig = <<>> when no original id is kept, *)
(* no = the contig/scaffold number written inside the id (0 = none).          *)
(***************************************************************************)
EXTENDS Integers, Sequences, FiniteSets

(* ! " # $ % & ' ( ) * + , / : ; = > ? @ [ ] ^ ` { | } and the blank: the characters that
   cannot be used in output file names or GenBank headers *)
Illegal == {33, 34, 35, 36, 37, 38, 39, 40, 41, 42, 43, 44, 47, 58, 59, 61, 62, 63, 64, 91, 93, 94, 96, 123, 124, 125, 32}
(* gene identifiers: the same plus tab, line feed, carriage return; replaced by "_" *)
GeneIllegal == Illegal \cup {9, 10, 13}
MaxLen == 16

HasIllegal(s) == \E k \in DOMAIN s : s[k] \in Illegal
AllIllegal(s) == \A k \in DOMAIN s : s[k] \in Illegal            (* true of the empty id *)
Strip(s) == SelectSeq(s, LAMBDA c : c \notin Illegal)
Take(s, n) == SubSeq(s, 1, IF Len(s) < n THEN Len(s) ELSE n)

(* --- the post-condition of the statement ---------------------------------- *)
(* in, out: sequences of records of the same length (same order)               *)
IdsFailed(in, out, allowLong) ==
    (IF Len(out) = Len(in) THEN {} ELSE {"one_result_per_record"})
    \cup (IF \A i, j \in DOMAIN out : i # j => out[i].id # out[j].id THEN {} ELSE {"ids_pairwise_distinct"})
    \cup (IF \A i \in DOMAIN out : ~HasIllegal(out[i].id) THEN {} ELSE {"no_illegal_character"})
    \cup (IF \A i \in DOMAIN out : out[i].id # <<>> THEN {} ELSE {"id_not_empty"})
    \cup (IF allowLong \/ \A i \in DOMAIN out : Len(out[i].id) <= MaxLen THEN {} ELSE {"at_most_16_characters"})
    \cup (IF \A i \in DOMAIN out : ~HasIllegal(out[i].name) THEN {} ELSE {"name_no_illegal_character"})
    \cup (IF allowLong \/ \A i \in DOMAIN out : Len(out[i].name) <= MaxLen THEN {} ELSE {"name_at_most_16_characters"})
    \cup (IF Len(out) = Len(in) /\ \A i \in DOMAIN out : out[i].id # in[i].id => out[i].orig = in[i].id
          THEN {} ELSE {"changed_record_remembers_original"})
IdsOK(in, out, allowLong) == IdsFailed(in, out, allowLong) = {}
(* refusing the whole input is an accepted outcome only when some id has no usable character *)
RejectionJustified(in) == \E i \in DOMAIN in : AllIllegal(in[i].id)

(* --- implementation-shaped pipeline: de-duplicate -> shorten -> strip ------- *)
RECURSIVE Dec(_)
Dec(n) == IF n < 10 THEN <<48 + n>> ELSE Dec(n \div 10) \o <<48 + (n % 10)>>
Pad5(n) == [k \in 1..(5 - Len(Dec(n))) |-> 48] \o Dec(n)
Numbered(prefix, k) == prefix \o <<95>> \o Dec(k)                           (* prefix_k *)
Unique(prefix, taken) ==
    Numbered(prefix, CHOOSE k \in 0..Cardinality(taken) :
                         /\ Numbered(prefix, k) \notin taken
                         /\ \A j \in 0..(k - 1) : Numbered(prefix, j) \in taken)
(* c00001_abcdefg..  As implemented the id part is always 7 characters, so a contig number of
   more than five digits makes the result longer than 16; the repaired form shortens the id part *)
Shorten(s, no, repaired) ==
    LET prefix == <<99>> \o Pad5(no) \o <<95>>
    IN  prefix \o Take(s, IF repaired /\ Len(prefix) > 7 THEN (IF Len(prefix) > 14 THEN 0 ELSE 14 - Len(prefix)) ELSE 7) \o <<46, 46>>
Dots(s) == Cardinality({k \in DOMAIN s : s[k] = 46})
IsVersioned(s) == Len(s) >= 2 /\ s[Len(s) - 1] = 46 /\ Dots(s) = 1          (* accession.1 *)
Accession(s) == SubSeq(s, 1, Len(s) - 2)
IdsOf(rs) == {rs[i].id : i \in DOMAIN rs}
HasDuplicates(rs) == \E i, j \in DOMAIN rs : i < j /\ rs[i].id = rs[j].id

(* a number appended by the de-duplication ("contig7_0") hides the contig number written in the id *)
RECURSIVE Dedup(_, _, _, _)
Dedup(rs, i, taken, acc) ==
    IF i > Len(rs) THEN acc
    ELSE IF rs[i].id \in taken
         THEN LET new == Unique(rs[i].id, taken)
              IN  Dedup(rs, i + 1, taken \cup {new}, Append(acc, [rs[i] EXCEPT !.id = new, !.orig = rs[i].id, !.no = 0]))
         ELSE Dedup(rs, i + 1, taken \cup {rs[i].id}, Append(acc, rs[i]))
Stage1(rs) == IF HasDuplicates(rs) THEN Dedup(rs, 1, {}, <<>>) ELSE rs

(* one record; repaired = FALSE: the ids are stripped after, and outside, the bookkeeping of the
   taken set (the design as implemented); repaired = TRUE: the stripped id is checked against the
   taken set and entered into it *)
FixOne(r, idx, taken, allowLong, repaired) ==
    LET no == IF r.no > 0 THEN r.no ELSE idx
        long == Len(r.id) > MaxLen /\ ~allowLong
        versioned == IsVersioned(r.id) /\ Len(Accession(r.id)) <= MaxLen /\ Accession(r.id) \notin taken
        id1 == IF ~long THEN r.id
               ELSE IF versioned THEN Accession(r.id)
               ELSE IF Shorten(r.id, no, repaired) \notin taken THEN Shorten(r.id, no, repaired)
               ELSE Unique(Take(r.id, 12), taken)
        taken1 == IF long THEN taken \cup {id1} ELSE taken
        name1 == IF Len(r.name) > MaxLen /\ ~allowLong THEN Shorten(r.name, no, repaired) ELSE r.name
        id2 == Strip(id1)
        clash == repaired /\ id2 # id1 /\ id2 \in taken1
        id3 == IF ~clash THEN id2
               ELSE IF allowLong THEN Unique(id2, taken1) ELSE Unique(Take(id2, 12), taken1)
        taken2 == IF repaired /\ id2 # id1 THEN taken1 \cup {id3} ELSE taken1
    IN  [rec |-> [id |-> id3, name |-> Strip(name1), no |-> r.no,
                  orig |-> IF r.orig = <<>> /\ r.id # id3 THEN r.id ELSE r.orig],
         taken |-> taken2]
RECURSIVE FixAll(_, _, _, _, _, _)
FixAll(rs, i, taken, allowLong, repaired, acc) ==
    IF i > Len(rs) THEN acc
    ELSE LET f == FixOne(rs[i], i, taken, allowLong, repaired)
         IN  FixAll(rs, i + 1, f.taken, allowLong, repaired, Append(acc, f.rec))
Pipeline(rs, allowLong, repaired) ==
    LET s1 == Stage1(rs)
        out == FixAll(s1, 1, IdsOf(s1), allowLong, repaired, <<>>)
    IN  [rejected |-> \E i \in DOMAIN out : out[i].id = <<>>, v |-> out]
ImplIds(rs, allowLong) == Pipeline(rs, allowLong, FALSE)
RepairedIds(rs, allowLong) == Pipeline(rs, allowLong, TRUE)

(* --- helpers observed directly ------------------------------------------------ *)
(* generate_unique_id(prefix, existing, max_length) = r: prefix_<number>, not among the existing *)
RECURSIVE AllDigits(_, _)
AllDigits(s, k) == k > Len(s) \/ (s[k] >= 48 /\ s[k] <= 57 /\ AllDigits(s, k + 1))
UniqueFailed(prefix, existing, maxlen, r) ==
    (IF r \notin existing THEN {} ELSE {"not_among_existing"})
    \cup (IF Len(r) >= Len(prefix) + 2 /\ SubSeq(r, 1, Len(prefix) + 1) = prefix \o <<95>> /\ AllDigits(r, Len(prefix) + 2)
          THEN {} ELSE {"prefix_underscore_number"})
    \cup (IF maxlen < 1 \/ Len(r) <= maxlen THEN {} ELSE {"within_maximum_length"})
(* fix_record_name_id(record, taken, allowLong): the record alone *)
FixFailed(in, taken, allowLong, out, takenAfter) ==
    (IdsFailed(<<in>>, <<out>>, allowLong) \ {"id_not_empty"})
    \cup (IF out.id = in.id \/ out.id = <<>> \/ out.id \notin taken THEN {} ELSE {"new_id_not_already_taken"})
    \cup (IF taken \subseteq takenAfter /\ (out.id = in.id \/ out.id \in takenAfter) THEN {} ELSE {"new_id_entered_as_taken"})

(* --- gene identifiers ----------------------------------------------------------- *)
(* a gene is [tag, pid, gene, loc]: identifiers (<<>> = absent) and an opaque location key *)
SanGene(s) == [k \in DOMAIN s |-> IF s[k] \in GeneIllegal THEN 95 ELSE s[k]]
(* the name a gene is mapped by: locus tag, else gene name, else protein id *)
GeneName(g) == SanGene(IF g.tag # <<>> THEN g.tag ELSE IF g.gene # <<>> THEN g.gene ELSE g.pid)
(* accepted: names are the genes' names, pairwise distinct, and each name finds its own gene;
   rejected while adding gene k: only if k collides (name or location) with an earlier gene *)
GenesAcceptedFailed(genes, names, found) ==
    (IF Len(names) = Len(genes) THEN {} ELSE {"every_gene_added"})
    \cup (IF \A i, j \in DOMAIN names : i # j => names[i] # names[j] THEN {} ELSE {"gene_names_unique"})
    \cup (IF found = [i \in DOMAIN names |-> i] THEN {} ELSE {"name_finds_its_gene"})
GenesRejectedFailed(genes, k) ==
    IF k \in DOMAIN genes /\ \E j \in 1..(k - 1) : GeneName(genes[j]) = GeneName(genes[k]) \/ genes[j].loc = genes[k].loc
    THEN {} ELSE {"rejected_only_on_collision"}
=============================================================================
