----------------------------- MODULE Persist_MC -----------------------------
(* Generator and model check for C10 / C12.  The reachable states of the Record  *)
(* state machine (RecordSM) in pipeline order are the annotated records that the *)
(* harness builds for real: genes first, protoclusters / subregions in ascending *)
(* or descending universe order (which decides the order of ties), candidates,   *)
(* regions, optionally one late gene.  Every state is a C10 case; every state    *)
(* with regions is a C12 case.  The round trips are stuttering steps; the        *)
(* invariants are the meta-properties of the extract expectation.                *)
EXTENDS Persist, TLC
CONSTANTS UniverseIds, MaxAreas, Faithful
VARIABLES u, dir, late, s, hist, phase
vars == <<u, dir, late, s, hist, phase>>

GP(loc, prods, pay) == [loc |-> loc, core_for |-> prods, pay |-> pay]
PAp(core, extent, product, pay) == [kind |-> "proto", core |-> core, extent |-> extent, product |-> product, pay |-> pay]
SAp(extent, pay) == [kind |-> "sub", core |-> extent, extent |-> extent, product |-> "sub", pay |-> pay]
Cross(a, L, b) == Loc(<< <<a, L>>, <<0, b>> >>, 1)
CrossRev(a, L, b) == Loc(<< <<0, b>>, <<a, L>> >>, -1)
Universes == <<
    (* 1: ring of 12.  two protoclusters with identical coordinates and different products, an origin-spanning
          sideloaded protocluster holding an origin-spanning gene, a non-spanning protocluster in front of the origin that
          joins the origin-spanning region (numbers of that region are not consecutive), a second region made of a
          subregion and a protocluster.  gene payloads: input-style rich gene, NRPS/PKS gene, plain origin-spanning gene *)
    [L |-> 12, circ |-> TRUE,
     genes |-> <<GP(Simple(1, 2, 1), <<"a", "b">>, 1), GP(Simple(6, 7, -1), <<"d">>, 4), GP(Cross(11, 12, 1), <<"c">>, 0),
                 GP(Simple(2, 3, 1), <<>>, 5)>>,
     areas |-> <<PAp(Simple(1, 2, 1), Simple(0, 3, 1), "a", 0), PAp(Simple(1, 2, 1), Simple(0, 3, 1), "b", 2),
                 PAp(Cross(11, 12, 1), Cross(10, 12, 2), "c", 1), SAp(Simple(4, 6, 1), 0),
                 PAp(Simple(6, 7, 1), Simple(5, 8, 1), "d", 0), PAp(Simple(9, 10, 1), Simple(9, 11, 1), "c", 0)>>],
    (* 2: line of 12.  regions touching both record ends, nested and identical coordinates, two identical subregions,
          codon_start genes on both strands, a prepeptide on the reverse strand, a gene with an intron *)
    [L |-> 12, circ |-> FALSE,
     genes |-> <<GP(Simple(0, 1, 1), <<"a">>, 2), GP(Simple(2, 3, -1), <<>>, 6), GP(Simple(9, 10, -1), <<"b">>, 5),
                 GP(Loc(<< <<3, 4>>, <<5, 6>> >>, 1), <<>>, 3)>>,
     areas |-> <<PAp(Simple(0, 1, 1), Simple(0, 4, 1), "a", 0), PAp(Simple(2, 3, 1), Simple(0, 4, 1), "c", 1),
                 PAp(Simple(9, 10, 1), Simple(8, 12, 1), "b", 2), SAp(Simple(3, 7, 1), 1), SAp(Simple(3, 7, 1), 0),
                 SAp(Simple(11, 12, 1), 1)>>],
    (* 3: ring of 9.  areas meeting only across the origin, a reverse-strand origin-spanning gene, an origin-spanning gene
          that sticks out of the origin-spanning region, a subregion at the record start, a later region with a subregion only *)
    [L |-> 9, circ |-> TRUE,
     genes |-> <<GP(CrossRev(8, 9, 1), <<"a">>, 3), GP(Simple(4, 5, 1), <<"b">>, 2), GP(Simple(1, 2, -1), <<>>, 1),
                 GP(Cross(6, 9, 1), <<>>, 0)>>,
     areas |-> <<PAp(Cross(8, 9, 1), Cross(7, 9, 2), "a", 0), PAp(Simple(4, 5, 1), Simple(3, 6, 1), "b", 0),
                 SAp(Simple(0, 2, 1), 1), SAp(Simple(5, 7, 1), 0), PAp(Simple(4, 5, 1), Simple(3, 6, 1), "c", 1)>>],
    (* 4: ring of 12.  an origin-spanning region holding genes with several exons: the origin inside an intron (both
          strands), an exon cut by the origin followed by a further exon, and an origin-spanning subregion; a second,
          ordinary region behind it *)
    [L |-> 12, circ |-> TRUE,
     genes |-> <<GP(Loc(<< <<10, 11>>, <<1, 2>> >>, 1), <<"a">>, 0), GP(Loc(<< <<2, 3>>, <<9, 10>> >>, -1), <<>>, 3),
                 GP(Loc(<< <<11, 12>>, <<0, 1>>, <<3, 4>> >>, 1), <<>>, 1), GP(Simple(6, 7, 1), <<"b">>, 1)>>,
     areas |-> <<PAp(Cross(10, 12, 2), Cross(9, 12, 5), "a", 0), SAp(Cross(11, 12, 1), 0),
                 PAp(Simple(6, 7, 1), Simple(6, 8, 1), "b", 0)>>] >>
uni == Universes[u]
ASSUME PrintT(<<"UNIVERSES", Universes>>)

NG == Len(uni.genes)
EarlyGenes == IF late THEN 1..(NG - 1) ELSE 1..NG
Call(op, arg) == [op |-> op, arg |-> arg]
AreaCall(a) == Call(IF uni.areas[a].kind = "proto" THEN "AddProto" ELSE "AddSub", a)
Added == s.protos \cup s.subs

Init == /\ u \in UniverseIds /\ dir \in {1, -1} /\ late \in BOOLEAN
        /\ s = Empty /\ hist = <<>> /\ phase = "genes"
Apply(calls) ==
    LET RECURSIVE Run(_, _)
        Run(st, i) == IF i > Len(calls) THEN st ELSE Run(ModelStep(uni, st, calls[i]), i + 1)
    IN  /\ s' = Run(s, 1)
        /\ hist' = hist \o calls
        /\ UNCHANGED <<u, dir, late>>
AddGenes == /\ phase = "genes"
            /\ Apply([i \in EarlyGenes |-> Call("AddGene", i)])
            /\ phase' = "areas"
AddArea(a) == /\ phase = "areas" /\ a \notin Added /\ Cardinality(Added) < MaxAreas
              /\ \A b \in Added : dir * b < dir * a
              /\ Enabled(uni, s, AreaCall(a))
              /\ Apply(<<AreaCall(a)>>)
              /\ phase' = "areas"
Candidates == /\ phase = "areas" /\ Enabled(uni, s, Call("CreateCandidates", 0))
              /\ Apply(<<Call("CreateCandidates", 0)>>)
              /\ phase' = "cands"
Regions == /\ (phase = "cands" \/ (phase = "areas" /\ s.protos = {}))
           /\ Enabled(uni, s, Call("CreateRegions", 0))
           /\ Apply(<<Call("CreateRegions", 0)>>)
           /\ phase' = "regions"
LateGene == /\ phase = "regions" /\ late
            /\ Apply(<<Call("AddGene", NG)>>)
            /\ phase' = "done"
(* C10: both round trips leave the abstract record and the output where they are *)
Rec == AbsRec(uni, s)
RoundTripGB == phase # "genes" /\ UNCHANGED vars
RoundTripJSON == phase # "genes" /\ UNCHANGED vars
(* C12: writing the region files leaves the full record unchanged *)
ExtractRegions == phase \in {"regions", "done"} /\ UNCHANGED vars
Next == AddGenes \/ (\E a \in DOMAIN uni.areas : AddArea(a)) \/ Candidates \/ Regions \/ LateGene
        \/ RoundTripGB \/ RoundTripJSON \/ ExtractRegions
Spec == Init /\ [][Next]_vars

HasRegions == phase \in {"regions", "done"}
Extract(r) == ModelExtract(Rec, r, IF Faithful THEN 0 - 1 ELSE 1)   \* FALSE: negative control, offset applied with the wrong sign
(* the expectation is a well-formed record of its own: everything inside, numbered from 1, references in range,
   one region spanning the extract *)
ExtractsWellFormed == HasRegions => \A r \in DOMAIN Rec.regions : ExtractWellFormed(Extract(r))
(* shifting back gives the original bases, feature by feature *)
ShiftPreservesBases == HasRegions => \A r \in DOMAIN Rec.regions : BasesPreserved(Rec, r, Extract(r))
ShiftIsRingShift == HasRegions => \A r \in DOMAIN Rec.regions : MoveIsRingShift(Rec, r)
(* a faithful extract rebuilds to exactly one region *)
ReloadGivesOneRegion == HasRegions => \A r \in DOMAIN Rec.regions : OneComponent(Extract(r))
(* the model extract satisfies the relation the trace spec demands of the real one *)
ModelExtractAccepted ==
    HasRegions => \A r \in DOMAIN Rec.regions :
        LET e == Extract(r)
            want == Expected(Rec, r)
        IN  /\ {OFeat(f, FALSE) : f \in Rng(e.feats)} = want.feats
            /\ {OProto(p) : p \in Rng(e.protos)} = want.protos
            /\ {OSub(x) : x \in Rng(e.subs)} = want.subs
            /\ {OCand(e, c) : c \in Rng(e.cands)} = want.cands
            /\ {OCand(e, e.cands[k]) : k \in Rng(e.regions[1].cands)} = want.regionCands
            /\ {OSub(e.subs[k]) : k \in Rng(e.regions[1].subs)} = want.regionSubs
(* every area of the model record is in exactly one region and lies inside it (so "contained in the region" and
   "member of the region" agree on the generated records) *)
MembersAreInside ==
    HasRegions => \A r \in DOMAIN Rec.regions :
        /\ \A k \in Rng(Rec.regions[r].cands) : Inside(Rec.regions[r].loc, Rec.cands[k].loc)
        /\ \A k \in Rng(Rec.regions[r].subs) : Inside(Rec.regions[r].loc, Rec.subs[k].loc)
        /\ {k \in DOMAIN Rec.cands : Inside(Rec.regions[r].loc, Rec.cands[k].loc)} = Rng(Rec.regions[r].cands)
(* a round trip is the identity on the abstract record: AbsRec is a function of the state *)
RoundTripIsStutter == [][(RoundTripGB \/ RoundTripJSON \/ ExtractRegions) => UNCHANGED vars]_vars
=============================================================================
