----------------------------- MODULE RegionsImpl -----------------------------
(***************************************************************************)
(* Implementation-shaped models of Record.create_regions (C06):            *)
(*   SweepSections - the design before the repair: one sweep over the       *)
(*     sorted areas comparing each with the running group only, then one    *)
(*     first/last merge;                                                    *)
(*   FixSections - the repaired design: every area is merged with every     *)
(*     group its growing location overlaps, repeated until stable, the      *)
(*     group location being the connection of its member areas.             *)
(* against the declarative statement (connected components of "areas        *)
(* overlap").  areas is a sequence of span locations in processing order.   *)
(***************************************************************************)
EXTENDS Ring

Idx(areas) == DOMAIN areas
LocOf(R, areas, S) == Cover(R, {areas[i] : i \in S})

RECURSIVE ReachIdx(_, _, _)
ReachIdx(areas, all, acc) ==
    LET nxt == acc \cup {j \in all : \E i \in acc : Overlaps(areas[i], areas[j])}
    IN  IF nxt = acc THEN acc ELSE ReachIdx(areas, all, nxt)
Components(areas) == {ReachIdx(areas, Idx(areas), {i}) : i \in Idx(areas)}
BigComponent(R, areas) ==
    R.circ /\ \E c \in Components(areas) : 2 * ShortestCoverLen(R, FootprintOfAll(R, {areas[i] : i \in c})) >= R.L

(* repaired design *)
RECURSIVE Grow(_, _, _, _)
Grow(R, areas, sections, cur) ==
    LET loc == LocOf(R, areas, cur)
        hit == {s \in sections : Overlaps(LocOf(R, areas, s), loc)}
    IN  IF hit = {} THEN sections \cup {cur}
        ELSE LET s == CHOOSE s \in hit : TRUE IN Grow(R, areas, sections \ {s}, cur \cup s)
RECURSIVE FixFrom(_, _, _, _)
FixFrom(R, areas, k, sections) ==
    IF k > Len(areas) THEN sections ELSE FixFrom(R, areas, k + 1, Grow(R, areas, sections, {k}))
FixSections(R, areas) == FixFrom(R, areas, 1, {})

(* design before the repair *)
RECURSIVE SweepFrom(_, _, _, _)
SweepFrom(R, areas, k, acc) ==
    IF k > Len(areas) THEN acc
    ELSE LET last == acc[Len(acc)]
         IN  IF Overlaps(areas[k], LocOf(R, areas, last))
             THEN SweepFrom(R, areas, k + 1, [acc EXCEPT ![Len(acc)] = last \cup {k}])
             ELSE SweepFrom(R, areas, k + 1, Append(acc, {k}))
SweepSections(R, areas) ==
    LET acc == SweepFrom(R, areas, 2, <<{1}>>)
        n == Len(acc)
    IN  IF n > 1 /\ Overlaps(LocOf(R, areas, acc[1]), LocOf(R, areas, acc[n]))
        THEN {acc[i] : i \in 2..(n - 1)} \cup {acc[1] \cup acc[n]}
        ELSE {acc[i] : i \in 1..n}

(* the property, for a set of sections *)
Sound(R, areas, sections) ==
    /\ UNION sections = Idx(areas)
    /\ \A s, t \in sections : s # t => (s \cap t = {} /\ ~Overlaps(LocOf(R, areas, s), LocOf(R, areas, t)))
    /\ \A c \in Components(areas) : \E s \in sections : c \subseteq s
    /\ ~BigComponent(R, areas) => sections = Components(areas)
=============================================================================
