----------------------------- MODULE SafeWrite -----------------------------
(***************************************************************************)
(* Property C20, part 1: a results writer converts NRec x NMod module        *)
(* results to JSON and then replaces the file at the target path.  A fault   *)
(* may be planted at any point of the conversion.  The file on disk is       *)
(*   "old"        the bytes of the previous run, untouched                   *)
(*   "truncated"  opened for writing, nothing written yet                    *)
(*   "new"        the complete new document                                  *)
(*   "partial"    anything else (only ever *observed*, never produced here)  *)
(*                                                                           *)
(* The conversion has two observable phases per module result (i,j):         *)
(*   Convert(i,j)  the module's to_json() builds plain data                  *)
(*   Ser(i,j)      the final dumps reaches the data produced by (i,j)        *)
(* A configuration is                                                        *)
(*   [nrec, nmod, writer, fault |-> [phase, i, j, kind]]                     *)
(*   phase "none" | "convert" | "dumps" | "top" (a top-level field of the    *)
(*   document that cannot be serialised: fails at the very end of the dumps) *)
(*   kind  "none" | "TypeError" | "Other" | "Unserialisable" | "InvalidType" *)
(*                                                                           *)
(* Everything is a pure operator over a state record so that the model       *)
(* checking module and the trace module use the very same actions.           *)
(* Part 2 (the output directory guard) is at the end of the module.          *)
(***************************************************************************)
EXTENDS Integers, Sequences, FiniteSets

NoFault == [phase |-> "none", i |-> 0, j |-> 0, kind |-> "none"]
Fault(phase, i, j, kind) == [phase |-> phase, i |-> i, j |-> j, kind |-> kind]

Positions(c) == (1..c.nrec) \X (1..c.nmod)
(* 1-based rank of a position in the documented conversion order: records outer, modules inner *)
Rank(c, i, j) == (i - 1) * c.nmod + j

ConvertKinds == {"TypeError", "Other", "InvalidType"}
DumpsKinds == {"TypeError", "Other", "Unserialisable"}
Faults(nrec, nmod, writer) ==
    {NoFault}
    \cup {Fault("convert", i, j, k) : i \in 1..nrec, j \in 1..nmod, k \in ConvertKinds}
    \cup {Fault("dumps", i, j, k) : i \in 1..nrec, j \in 1..nmod, k \in DumpsKinds}
    \cup (IF writer = "write_to_file" THEN {Fault("top", 0, 0, "Unserialisable")} ELSE {})

Writers == {"write_to_file", "dump_records"}
Configs(maxrec, maxmod) ==
    UNION {UNION {UNION {{[nrec |-> nr, nmod |-> nm, writer |-> w, fault |-> f] : f \in Faults(nr, nm, w)}
                         : w \in Writers} : nm \in 0..maxmod} : nr \in 0..maxrec}

WillFail(c) == c.fault.phase # "none"
FaultAt(c, phase, i, j) == c.fault.phase = phase /\ c.fault.i = i /\ c.fault.j = j
(* a module result of invalid type has no to_json to call: the writer itself raises, no Convert is seen *)
Silent(c, i, j) == FaultAt(c, "convert", i, j) /\ c.fault.kind = "InvalidType"

(* --- state ----------------------------------------------------------------- *)
S0 == [pc |-> "run", disk |-> "old", conv |-> {}, ser |-> {}, raised |-> FALSE, opened |-> FALSE,
       reported |-> FALSE]

AllConverted(c, s) == s.conv = Positions(c)
AllSerialised(c, s) == s.ser = Positions(c)
ConversionsDone(c, s) == AllConverted(c, s) /\ AllSerialised(c, s) /\ ~s.raised /\ c.fault.phase # "top"

(* --- events: [e |-> name, i, j, ok] ---------------------------------------- *)
Ev(e, i, j, ok) == [e |-> e, i |-> i, j |-> j, ok |-> ok]

(* Guard of an event under the *relation* every correct writer satisfies ("free" discipline): the
   order of conversions is the implementation's business, but the target may only be opened (and
   thereby emptied) once nothing can fail any more.  Returns "" or the name of the broken clause. *)
Guard(c, s, ev) ==
    IF s.pc # "run" THEN "nothing_after_return"
    ELSE CASE ev.e = "Convert" -> ""
           [] ev.e = "Ser" -> ""
           [] ev.e = "Open" -> IF s.raised THEN "no_open_after_failed_conversion"
                               ELSE IF ~(AllConverted(c, s) /\ AllSerialised(c, s)) THEN "open_only_after_all_conversions"
                               ELSE ""
           [] ev.e = "Write" -> IF s.raised THEN "no_write_after_failed_conversion"
                                ELSE IF ~(AllConverted(c, s) /\ AllSerialised(c, s)) THEN "write_only_after_all_conversions"
                                ELSE ""
           [] ev.e = "Return" -> IF (s.raised \/ WillFail(c)) /\ ev.ok THEN "failure_reported"
                                 ELSE IF ~WillFail(c) /\ ~s.raised /\ ~ev.ok THEN "success_without_fault"
                                 ELSE ""
           [] OTHER -> "unknown_event"

(* the documented order on top of it ("strict" discipline = the implementation-shaped model):
   records outer, modules inner, all to_json calls, then one dumps, then open, then one write *)
StrictGuard(c, s, ev) ==
    IF Guard(c, s, ev) # "" THEN Guard(c, s, ev)
    ELSE CASE ev.e = "Convert" -> IF s.raised \/ s.ser # {} \/ s.opened
                                     \/ Rank(c, ev.i, ev.j) # Cardinality(s.conv) + 1 THEN "order" ELSE ""
           [] ev.e = "Ser" -> IF s.raised \/ ~AllConverted(c, s) \/ s.opened
                                 \/ Rank(c, ev.i, ev.j) # Cardinality(s.ser) + 1 THEN "order" ELSE ""
           [] ev.e = "Open" -> IF s.opened \/ c.fault.phase = "top" THEN "order" ELSE ""
           [] ev.e = "Write" -> IF ~s.opened \/ s.disk = "new" THEN "order" ELSE ""
           [] ev.e = "Return" -> IF ~s.raised /\ s.disk # "new" THEN "order" ELSE ""
           [] OTHER -> "unknown_event"

(* a deliberately wrong discipline: the target is opened first (negative control) *)
OpenFirstGuard(c, s, ev) ==
    CASE ev.e = "Open" -> IF s.pc = "run" /\ ~s.opened /\ s.conv = {} /\ ~s.raised THEN "" ELSE "order"
      [] ev.e = "Convert" -> IF s.pc = "run" /\ s.opened /\ ~s.raised /\ s.ser = {}
                                /\ Rank(c, ev.i, ev.j) = Cardinality(s.conv) + 1 THEN "" ELSE "order"
      [] ev.e = "Ser" -> IF s.pc = "run" /\ s.opened /\ ~s.raised /\ AllConverted(c, s)
                            /\ Rank(c, ev.i, ev.j) = Cardinality(s.ser) + 1 THEN "" ELSE "order"
      [] ev.e = "Write" -> IF s.pc = "run" /\ s.opened /\ ~s.raised /\ AllConverted(c, s) /\ AllSerialised(c, s)
                              /\ c.fault.phase # "top" /\ s.disk # "new" THEN "" ELSE "order"
      [] ev.e = "Return" -> IF s.pc = "run" /\ (s.raised \/ s.disk = "new") /\ (ev.ok = ~s.raised) THEN "" ELSE "order"
      [] OTHER -> "unknown_event"

(* a second wrong discipline: a failed conversion is caught and the writer carries on *)
SwallowGuard(c, s, ev) ==
    CASE ev.e = "Convert" -> IF s.pc = "run" /\ ~s.opened /\ s.ser = {}
                                /\ Rank(c, ev.i, ev.j) = Cardinality(s.conv) + 1 THEN "" ELSE "order"
      [] ev.e = "Ser" -> IF s.pc = "run" /\ ~s.opened /\ AllConverted(c, s)
                            /\ Rank(c, ev.i, ev.j) = Cardinality(s.ser) + 1 THEN "" ELSE "order"
      [] ev.e = "Open" -> IF s.pc = "run" /\ ~s.opened /\ AllConverted(c, s) /\ AllSerialised(c, s) THEN "" ELSE "order"
      [] ev.e = "Write" -> IF s.pc = "run" /\ s.opened /\ s.disk # "new" THEN "" ELSE "order"
      [] ev.e = "Return" -> IF s.pc = "run" /\ s.disk = "new" /\ ev.ok THEN "" ELSE "order"
      [] OTHER -> "unknown_event"

(* effect of an event (whether or not its guard held: a trace is resynchronised by applying it) *)
Effect(c, s, ev) ==
    CASE ev.e = "Convert" ->
            IF Silent(c, ev.i, ev.j) THEN [s EXCEPT !.raised = TRUE]
            ELSE [s EXCEPT !.conv = @ \cup {<<ev.i, ev.j>>},
                           !.raised = @ \/ FaultAt(c, "convert", ev.i, ev.j)]
      [] ev.e = "Ser" -> [s EXCEPT !.ser = @ \cup {<<ev.i, ev.j>>},
                                   !.raised = @ \/ FaultAt(c, "dumps", ev.i, ev.j)
                                              \/ (c.fault.phase = "top" /\ s.ser \cup {<<ev.i, ev.j>>} = Positions(c))]
      [] ev.e = "Open" -> [s EXCEPT !.disk = "truncated", !.opened = TRUE]
      [] ev.e = "Write" -> [s EXCEPT !.disk = IF s.opened THEN "new" ELSE @]
      [] ev.e = "Return" -> [s EXCEPT !.pc = IF ev.ok THEN "done" ELSE "failed", !.reported = ~ev.ok]
      [] OTHER -> s

(* whether the stub behind a Convert/Ser event raises, as a function of the configuration *)
StubOk(c, ev) ==
    CASE ev.e = "Convert" -> ~(FaultAt(c, "convert", ev.i, ev.j) /\ c.fault.kind \in {"TypeError", "Other"})
      [] ev.e = "Ser" -> ~(FaultAt(c, "dumps", ev.i, ev.j) /\ c.fault.kind \in {"TypeError", "Other"})
      [] OTHER -> TRUE

(* events a writer can produce in a configuration (Return's ok = "returned normally") *)
Events(c) ==
    {Ev("Convert", p[1], p[2], TRUE) : p \in Positions(c)} \cup {Ev("Ser", p[1], p[2], TRUE) : p \in Positions(c)}
    \cup {Ev("Open", 0, 0, TRUE), Ev("Write", 0, 0, TRUE), Ev("Return", 0, 0, TRUE), Ev("Return", 0, 0, FALSE)}

(* a zero-size top-level fault (no module results at all) raises as soon as the dumps starts *)
Start(c) == [S0 EXCEPT !.raised = (c.fault.phase = "top" /\ Positions(c) = {})]

(* --- the property on a state ------------------------------------------------- *)
FailedImpliesOldAt(s) == s.pc = "failed" => (s.disk = "old" /\ s.reported)
SuccessImpliesNewAt(c, s) == s.pc = "done" => (s.disk = "new" /\ ~WillFail(c))
FaultImpliesFailedAt(c, s) == (s.pc = "done") => ~WillFail(c)

(* --- replay of a logged event sequence (trace validation) -------------------- *)
(* returns the set of guard clauses broken along the way and the final state *)
RECURSIVE Replay(_, _, _, _, _)
Replay(c, s, evs, k, broken) ==
    IF k > Len(evs) THEN [s |-> s, broken |-> broken]
    ELSE LET g == Guard(c, s, evs[k])
         IN  Replay(c, Effect(c, s, evs[k]), evs, k + 1, IF g = "" THEN broken ELSE broken \cup {g})

(***************************************************************************)
(* Part 2: the output directory guard.                                       *)
(* A directory configuration is                                              *)
(*   [state |-> "absent" | "file" | "dir", contents \subseteq Items,         *)
(*    mode |-> "fresh" | "reuse", logcfg \in BOOLEAN]                        *)
(* "json" is the results file of a previous run; in reuse mode it is the      *)
(* file being reused when present, otherwise the reused file lives elsewhere. *)
(***************************************************************************)
(* "stem" / "stemdir": a foreign file / populated directory whose name is the beginning of the log file's name
   ("log" and "lo/" next to "log.txt"): foreign like any other, however the guard tells its own files apart *)
Items == {"input", "log", "region", "json", "file", "dir", "dot", "stem", "stemdir"}
DirConfigs ==
    {[state |-> "absent", contents |-> {}, mode |-> m, logcfg |-> lc] : m \in {"fresh", "reuse"}, lc \in BOOLEAN}
    \cup {[state |-> "file", contents |-> {}, mode |-> m, logcfg |-> lc] : m \in {"fresh", "reuse"}, lc \in BOOLEAN}
    \cup {d \in [state : {"dir"}, contents : SUBSET Items, mode : {"fresh", "reuse"}, logcfg : BOOLEAN] :
              "log" \in d.contents => d.logcfg}

Own(d) == {"input"} \cup (IF d.logcfg THEN {"log"} ELSE {})
Foreign(d) == d.contents \ Own(d)

(* must refuse: something that is not a directory; a fresh run into a directory holding anything that
   is not the input copy or the log file.  Dot-files are unspecified (DESIGN section 5, P16). *)
MustRefuse(d) == \/ d.state = "file"
                 \/ d.state = "dir" /\ d.mode = "fresh" /\ (Foreign(d) \ {"dot"}) # {}
(* must accept: a fresh run into a directory holding only its own files; a reuse run into the directory
   that holds the results being reused (pinned by the repository's integration tests) or only own files *)
MustAccept(d) == d.state = "dir" /\ \/ d.mode = "fresh" /\ Foreign(d) = {}
                                    \/ d.mode = "reuse" /\ ("json" \in d.contents \/ Foreign(d) = {})
Unspecified(d) == ~MustRefuse(d) /\ ~MustAccept(d)

(* implementation-shaped guard: emptiness is decided by a glob that skips dot-files; no check at all
   with a .json input *)
ImplRefuse(d) == \/ d.state = "file"
                 \/ d.state = "dir" /\ d.mode = "fresh" /\ (Foreign(d) \ {"dot"}) # {}
(* a loosened guard (negative control): other directories are not looked at *)
LooseRefuse(d) == \/ d.state = "file"
                  \/ d.state = "dir" /\ d.mode = "fresh" /\ (Foreign(d) \ {"dot", "dir"}) # {}

GuardWithinSandwich(refuse, d) == (MustRefuse(d) => refuse) /\ (refuse => ~MustAccept(d))

(* verdict on an observed call: refused = an exception came out; status maps each item that was present
   to "same" | "changed" | "missing"; extra = number of entries that appeared; after = state afterwards *)
DirClauses(d, refused, status, extra, after) ==
    (IF MustRefuse(d) /\ ~refused THEN {"refuses_foreign_contents"} ELSE {})
    \cup (IF MustAccept(d) /\ refused THEN {"accepts_own_files"} ELSE {})
    \cup (IF refused /\ (after # d.state \/ extra # 0 \/ \E it \in d.contents : status[it] # "same")
          THEN {"refusal_leaves_directory_untouched"} ELSE {})
=============================================================================
