---------------------------- MODULE RecordSM_Trace ----------------------------
(***************************************************************************)
(* Trace validation for C06 / C08 (build order).  One event = one public    *)
(* mutator call on a real Record with the projected record before and       *)
(* after:                                                                    *)
(*  obs == [genes : Seq(gene id),                                            *)
(*          protos : Seq([id, num, fetch, kids, defs, parent]),              *)
(*          subs   : Seq([id, num, fetch, kids, parent]),                    *)
(*          cands  : Seq([kind, members, loc, num, fetch, kids, parent]),    *)
(*          regions: Seq([loc, num, fetch, cands, subs, kids]),              *)
(*          gene_region : Seq(<<gene id, region index or 0>>)]               *)
(* lists are in record order; num = the number the record reports, fetch =   *)
(* list position of the feature the record returns for that number; parent  *)
(* = list position of the parent feature, 0 for none, -1 for a feature that  *)
(* is no longer in the record (stale link).                                  *)
(***************************************************************************)
EXTENDS RecordSM, Order, TLC, Json, IOUtils
VARIABLE l
Trace == ndJsonDeserialize(IOEnv.TRACE_FILE)

Rng(seq) == {seq[i] : i \in DOMAIN seq}
CandRec(c) == [kind |-> c.kind, members |-> Rng(c.members), loc |-> c.loc]
AbsState(obs) ==
    [genes |-> Rng(obs.genes),
     protos |-> {obs.protos[i].id : i \in DOMAIN obs.protos},
     subs |-> {obs.subs[i].id : i \in DOMAIN obs.subs},
     cands |-> {CandRec(obs.cands[i]) : i \in DOMAIN obs.cands},
     regions |-> {[cands |-> {CandRec(obs.cands[k]) : k \in Rng(obs.regions[i].cands)},
                   subs |-> Rng(obs.regions[i].subs), loc |-> obs.regions[i].loc] : i \in DOMAIN obs.regions}]

(* --- what must hold of any observed record ------------------------------------------------------------ *)
NumberedFailed(list, what) ==
    (IF \E i \in DOMAIN list : list[i].num # i THEN {what \o "_numbered_1_to_n_in_record_order"} ELSE {})
    \cup (IF \E i \in DOMAIN list : list[i].fetch # i THEN {what \o "_number_identifies_same_feature"} ELSE {})
(* location order of areas as Order.tla states it: those spanning the origin first (by where they start before the origin),
   then by start, of equal starts the longer first; nothing is listed behind an area it has to precede *)
InLocationOrder(uni, locs) ==
    LET R == [L |-> uni.L, circ |-> uni.circ]
    IN  \A i, j \in DOMAIN locs : i < j => ~AreaMustBefore(R, locs[j], locs[i])
Inside(uni, obs, loc) == {g \in Rng(obs.genes) : Contains(loc, uni.genes[g].loc)}
RegionOfGene(uni, obs, g) ==
    LET holders == {i \in DOMAIN obs.regions : Contains(obs.regions[i].loc, uni.genes[g].loc)}
    IN  IF holders = {} THEN 0 ELSE CHOOSE i \in holders : TRUE
StateFailed(uni, obs) ==
    NumberedFailed(obs.protos, "protocluster") \cup NumberedFailed(obs.subs, "subregion")
    \cup NumberedFailed(obs.cands, "candidate") \cup NumberedFailed(obs.regions, "region")
    \cup (IF ~InLocationOrder(uni, [i \in DOMAIN obs.protos |-> uni.areas[obs.protos[i].id].extent]) THEN {"protoclusters_in_location_order"} ELSE {})
    \cup (IF ~InLocationOrder(uni, [i \in DOMAIN obs.subs |-> uni.areas[obs.subs[i].id].extent]) THEN {"subregions_in_location_order"} ELSE {})
    \cup (IF ~InLocationOrder(uni, [i \in DOMAIN obs.cands |-> obs.cands[i].loc]) THEN {"candidates_in_location_order"} ELSE {})
    \cup (IF ~InLocationOrder(uni, [i \in DOMAIN obs.regions |-> obs.regions[i].loc]) THEN {"regions_in_location_order"} ELSE {})
    (* C08: every area lists exactly the genes its location contains, whatever the build order *)
    \cup (IF \E i \in DOMAIN obs.protos : Rng(obs.protos[i].kids) # Inside(uni, obs, uni.areas[obs.protos[i].id].extent) THEN {"protocluster_lists_contained_genes"} ELSE {})
    \cup (IF \E i \in DOMAIN obs.protos : Rng(obs.protos[i].defs) #
                {g \in Inside(uni, obs, uni.areas[obs.protos[i].id].core) : \E k \in DOMAIN uni.genes[g].core_for : uni.genes[g].core_for[k] = uni.areas[obs.protos[i].id].product}
          THEN {"defining_genes_are_core_annotated_genes_in_core"} ELSE {})
    \cup (IF \E i \in DOMAIN obs.subs : Rng(obs.subs[i].kids) # Inside(uni, obs, uni.areas[obs.subs[i].id].extent) THEN {"subregion_lists_contained_genes"} ELSE {})
    \cup (IF \E i \in DOMAIN obs.cands : Rng(obs.cands[i].kids) # Inside(uni, obs, obs.cands[i].loc) THEN {"candidate_lists_contained_genes"} ELSE {})
    \cup (IF \E i \in DOMAIN obs.regions : Rng(obs.regions[i].kids) # Inside(uni, obs, obs.regions[i].loc) THEN {"region_lists_contained_genes"} ELSE {})
    \cup (IF \E k \in DOMAIN obs.gene_region :
               /\ (\A i, j \in DOMAIN obs.regions : i # j => ~Overlaps(obs.regions[i].loc, obs.regions[j].loc))
               /\ obs.gene_region[k][2] # RegionOfGene(uni, obs, obs.gene_region[k][1])
          THEN {"gene_points_to_the_region_containing_it"} ELSE {})
    (* no stale parent links *)
    \cup (IF \E i \in DOMAIN obs.cands : obs.cands[i].parent = -1 \/ (obs.cands[i].parent > 0 /\ i \notin Rng(obs.regions[obs.cands[i].parent].cands))
          THEN {"candidate_parent_is_a_current_region_listing_it"} ELSE {})
    \cup (IF \E r \in DOMAIN obs.regions : \E k \in Rng(obs.regions[r].cands) : obs.cands[k].parent # r THEN {"region_members_point_back_to_it"} ELSE {})
    \cup (IF \E i \in DOMAIN obs.subs : obs.subs[i].parent = -1 \/ (obs.subs[i].parent > 0 /\ obs.subs[i].id \notin Rng(obs.regions[obs.subs[i].parent].subs))
          THEN {"subregion_parent_is_a_current_region_listing_it"} ELSE {})

(* --- what must hold of a transition ------------------------------------------------------------------- *)
IndexIn(order, x) == CHOOSE i \in DOMAIN order : order[i] = x
StepFailed(uni, call, before, after) ==
    LET b == AbsState(before)
        a == AbsState(after)
        m == ModelStep(uni, [b EXCEPT !.cands = {}, !.regions = {}], call)   \* only the deterministic sets are read from m
        rebuilt == call.op = "CreateRegions" \/ (call.op \in {"ClearSubs", "ClearCands", "ClearProtos"} /\ b.regions # {})
        order == ProtoSeq(b.protos)
        once(seq) == \A i, j \in DOMAIN seq : i # j => seq[i] # seq[j]
    IN  (IF a.genes # m.genes THEN {"genes_as_added"} ELSE {})
        (* what an area lists - its genes, a candidate's protoclusters, a region's candidates and subregions - it lists once
           (the abstract state holds these as sets, so a doubled entry would go unnoticed there) *)
        \cup (IF \E i \in DOMAIN after.cands : ~once(after.cands[i].members) \/ ~once(after.cands[i].kids) THEN {"candidate_lists_each_entry_once"} ELSE {})
        \cup (IF \E i \in DOMAIN after.regions : ~once(after.regions[i].cands) \/ ~once(after.regions[i].subs) \/ ~once(after.regions[i].kids)
              THEN {"region_lists_each_entry_once"} ELSE {})
        \cup (IF \E i \in DOMAIN after.protos : ~once(after.protos[i].kids) \/ ~once(after.protos[i].defs) THEN {"protocluster_lists_each_entry_once"} ELSE {})
        \cup (IF \E i \in DOMAIN after.subs : ~once(after.subs[i].kids) THEN {"subregion_lists_each_entry_once"} ELSE {})
        \cup (IF a.protos # m.protos THEN {"protoclusters_as_added_or_cleared"} ELSE {})
        \cup (IF a.subs # m.subs THEN {"subregions_as_added_or_cleared"} ELSE {})
        \cup (CASE call.op = "CreateCandidates" ->
                     {"candidates:" \o c : c \in CandFailed(ArrOf(uni, b),
                         [i \in DOMAIN after.cands |-> [kind |-> after.cands[i].kind, loc |-> after.cands[i].loc,
                                                         members |-> [k \in DOMAIN after.cands[i].members |-> IndexIn(order, after.cands[i].members[k])]]])}
                [] call.op \in {"ClearCands", "ClearProtos"} -> IF a.cands # {} THEN {"candidates_cleared"} ELSE {}
                [] OTHER -> IF a.cands # b.cands THEN {"candidates_untouched"} ELSE {})
        (* no stale parent links: after any clear_* call, and for a protocluster that was just (re-)added, a protocluster's
           parent is nothing or a candidate cluster of the record that lists it.  (Right after candidate formation the
           link may point at a candidate that formation built and then discarded as a duplicate; the statement only
           speaks about clearing and re-creating - so clearing regions or subregions, which leaves candidates alone, is
           only blamed for a link that was in order before the call.) *)
        \cup (IF \E i \in DOMAIN after.protos :
                    /\ (call.op \in {"ClearCands", "ClearProtos"} \/ (call.op = "AddProto" /\ after.protos[i].id = call.arg)
                        \/ (call.op \in {"ClearRegions", "ClearSubs"}
                            /\ \E j \in DOMAIN before.protos : before.protos[j].id = after.protos[i].id /\ before.protos[j].parent # -1))
                    /\ (after.protos[i].parent = -1 \/
                        (after.protos[i].parent > 0 /\ after.protos[i].id \notin Rng(after.cands[after.protos[i].parent].members)))
              THEN {"protocluster_parent_is_a_current_candidate_listing_it"} ELSE {})
        \cup (IF rebuilt THEN RegionsBuiltFailed(uni, a)
              ELSE IF call.op = "ClearRegions" THEN (IF a.regions # {} THEN {"regions_cleared"} ELSE {})
              ELSE IF a.regions # b.regions THEN {"regions_untouched"} ELSE {})

Failed(ev) ==
    IF ev.exc # "" THEN {ev.call.op \o "/no_exception:" \o ev.exc}
    ELSE {ev.call.op \o "/" \o c : c \in StepFailed(ev.uni, ev.call, ev.before, ev.after) \cup StateFailed(ev.uni, ev.after)}

Init == l = 1
Step == /\ l <= Len(Trace)
        /\ \A c \in Failed(Trace[l]) : PrintT(<<"REJECT", Trace[l].id, c>>)
        /\ l' = l + 1
Done == l = Len(Trace) + 1 /\ PrintT(<<"DONE", Len(Trace)>>) /\ l' = l + 1
Next == Step \/ Done
Spec == Init /\ [][Next]_l
=============================================================================
