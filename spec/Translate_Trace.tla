--------------------------- MODULE Translate_Trace ---------------------------
(* Trace validation for C09.  One event = one gene on one record with the     *)
(* observed results of every protein-range -> nucleotide-location path for a  *)
(* list of ranges rs[i] = [s, e, ...].  TLC decides every observed location   *)
(* against Translate.tla.  A result is always [exc |-> "" | name, v |-> value].*)
(* One REJECT line per (call site, clause): "op/clause:mask" where bit i-1 of *)
(* mask is set iff range rs[i] failed that clause (first failing clause per   *)
(* range), or "op/no_exception:Name.mask".                                    *)
EXTENDS Translate, TLC, Json, IOUtils
VARIABLE l
Trace == ndJsonDeserialize(IOEnv.TRACE_FILE)

RingOf(ev) == [L |-> ev.L, circ |-> ev.circ]

RECURSIVE Pow2(_)
Pow2(n) == IF n = 0 THEN 1 ELSE 2 * Pow2(n - 1)
RECURSIVE MaskOf(_)
MaskOf(S) == IF S = {} THEN 0 ELSE LET x == CHOOSE y \in S : TRUE IN Pow2(x - 1) + MaskOf(S \ {x})

(* V(i) is "ok" or a clause name ending in its separator (":" / "." after an exception name) *)
Group(op, V(_), idx) ==
    {op \o "/" \o c \o ToString(MaskOf({i \in idx : V(i) = c})) : c \in {V(i) : i \in idx} \ {"ok"}}
Raised(res) == "no_exception:" \o res.exc \o "."

LocVerdict(R, g, s, e, res, prefix) ==
    IF res.exc # "" THEN Raised(res)
    ELSE LET c == SubClause(R, g, s, e, res.v) IN IF c = "ok" THEN "ok" ELSE prefix \o c \o ":"
(* [loc, tr]: the location, and whether extracting it from the real sequence and translating
   gave the recorded stretch of the gene's translation *)
LocTrVerdict(R, g, s, e, res) ==
    IF res.exc # "" THEN Raised(res)
    ELSE LET c == SubClause(R, g, s, e, res.v.loc)
         IN  IF c # "ok" THEN c \o ":" ELSE IF ~res.v.tr THEN "extract_translate:" ELSE "ok"

SubVerdict(R, g, x) ==
    LET c == LocVerdict(R, g, x.s, x.e, x.sub, "") IN
    IF c # "ok" THEN c
    ELSE IF x.tr.exc # "" THEN "extract_translate_raised:"
    ELSE IF ~x.tr.v THEN "extract_translate:"
    ELSE "ok"

(* the helper may refuse a gene that runs over the origin, but what it returns must be right *)
ConvVerdict(g, x) ==
    IF x.conv.exc # "" THEN (IF Bridges(g.loc) THEN "ok" ELSE Raised(x.conv))
    ELSE LET c == ConvClause(g, x.s, x.e, x.conv.v) IN IF c = "ok" THEN "ok" ELSE c \o ":"

(* pre: the sections of a prepeptide as placed by the feature itself (x.pre) or by the feature rebuilt from what was
   written out (x.pre2: GenBank output read again, reused results) *)
PreVerdictOf(R, g, x, pre) ==
    LET n == NumRes(g) IN
    IF pre.exc # "" THEN Raised(pre)
    ELSE LET p == pre.v
             core == SubClause(R, g, x.s, x.e, p.core)
         IN  IF core # "ok" THEN "core_" \o core \o ":"
             ELSE IF p.hl # (x.s > 0) THEN "leader_iff_nonempty:"
             ELSE IF p.ht # (x.e < n) THEN "tail_iff_nonempty:"
             ELSE IF p.hl /\ SubClause(R, g, 0, x.s, p.leader) # "ok" THEN "leader_" \o SubClause(R, g, 0, x.s, p.leader) \o ":"
             ELSE IF p.ht /\ SubClause(R, g, x.e, n, p.tail) # "ok" THEN "tail_" \o SubClause(R, g, x.e, n, p.tail) \o ":"
             ELSE IF ~p.tr THEN "extract_translate:"
             ELSE "ok"

PreVerdict(R, g, x) == PreVerdictOf(R, g, x, x.pre)
(* a gene two of whose exons abut on the record without following each other in the gene (the last exon of a gene
   that runs round most of a small ring touching its first one): what is written out lists abutting stretches, and
   reading them back cannot tell two such exons from one exon cut in two - the read-back clause leaves these genes out *)
SelfAbutting(g) ==
    \E i, j \in DOMAIN g.loc.parts : /\ j > i + 1
                                     /\ (g.loc.parts[i][2] = g.loc.parts[j][1] \/ g.loc.parts[j][2] = g.loc.parts[i][1])
ReadBackVerdict(R, g, x) == IF SelfAbutting(g) THEN "ok" ELSE PreVerdictOf(R, g, x, x.pre2)

GeneFailed(ev) ==
    LET R == RingOf(ev)
        g == ev.g
    IN  IF ev.cds.exc # "" THEN {"gene/no_exception:" \o ev.cds.exc}
        ELSE LET kept == GeneLocClause(R, g, ev.cds.v.kept)
                 back == GeneBackClause(R, g, ev.cds.v.back, ev.cds.v.cs)
             IN  (IF kept # "ok" THEN {"gene/kept_" \o kept} ELSE {})
                 \cup (IF back # "ok" THEN {"gene/written_" \o back} ELSE {})
                 \cup (IF ev.cds.v.tr # ev.prot THEN {"gene/translation_generated"} ELSE {})

RangesFailed(ev) ==
    LET R == RingOf(ev)
        g == ev.g
        rs == ev.rs
        idx == DOMAIN rs
        codons == {i \in idx : rs[i].codon}
    IN  Group("sub", LAMBDA i : SubVerdict(R, g, rs[i]), idx)
        \cup Group("convert", LAMBDA i : ConvVerdict(g, rs[i]), idx)
        \cup (IF ev.callers
              THEN Group("prepeptide", LAMBDA i : PreVerdict(R, g, rs[i]), idx)
                   \cup Group("prepeptide_read_back", LAMBDA i : ReadBackVerdict(R, g, rs[i]), idx)
                   \cup Group("hmmer", LAMBDA i : LocTrVerdict(R, g, rs[i].s, rs[i].e, rs[i].hm), idx)
                   \cup Group("domain", LAMBDA i : LocTrVerdict(R, g, rs[i].s, rs[i].e, rs[i].dom), idx)
                   \cup Group("motif", LAMBDA i : LocTrVerdict(R, g, rs[i].s, rs[i].e, rs[i].mot), idx)
              ELSE {})
        \cup (IF ev.tta
              THEN Group("tta", LAMBDA i : LocVerdict(R, g, rs[i].s, rs[i].e, rs[i].tta, ""), codons)
              ELSE {})
        (* the scan for TTA codons (tta.detect) on a gene whose codons at the listed single residues are TTA and that
           holds no other TTA in any frame: exactly those codons are marked, each marker covering its codon *)
        \cup (IF ev.ttad.on
              THEN (IF ev.ttad.exc # "" THEN {"tta_detect/" \o Raised(ev.ttad)}
                    ELSE LET marks(i) == {m \in DOMAIN ev.ttad.v : SubClause(R, g, rs[i].s, rs[i].e, ev.ttad.v[m]) = "ok"} IN
                         (IF \E i \in codons : marks(i) = {} THEN {"tta_detect/every_tta_codon_of_the_gene_is_marked"} ELSE {})
                         \cup (IF \E m \in DOMAIN ev.ttad.v : \A i \in codons : m \notin marks(i)
                               THEN {"tta_detect/only_tta_codons_of_the_gene_are_marked"} ELSE {}))
              ELSE {})

(* the event must be a legal input of the model, else the harness is broken *)
InputFailed(ev) ==
    LET R == RingOf(ev)
        g == ev.g
        listed == {<<ev.rs[i].s, ev.rs[i].e>> : i \in DOMAIN ev.rs}
    IN  IF ~(WellFormed(R, g.loc) /\ g.loc.strand \in {1, -1} /\ g.cs \in 1..3
             /\ g.loc.parts[1][2] - g.loc.parts[1][1] >= g.cs /\ (~R.circ => ~Bridges(g.loc)))
        THEN {"trace/gene_outside_model"}
        ELSE (IF ev.n # NumRes(g) \/ NumRes(g) < 1 THEN {"trace/residue_count"} ELSE {})
             \cup (IF ~(listed \subseteq Ranges(g)) THEN {"trace/range_outside_gene"} ELSE {})
             \cup (IF Len(ev.rs) > 30 THEN {"trace/too_many_ranges"} ELSE {})
             \cup (IF ev.cds.exc = "" /\ ev.all /\ listed # Ranges(g) THEN {"trace/ranges_incomplete"} ELSE {})
             \cup (IF \E i \in DOMAIN ev.rs : ev.rs[i].codon # (ev.rs[i].e = ev.rs[i].s + 1) THEN {"trace/codon_flag"} ELSE {})

Failed(ev) == IF ev.op # "gene" THEN {"trace/unknown_op"}
              ELSE LET bad == InputFailed(ev)
                   IN  IF bad # {} THEN bad ELSE GeneFailed(ev) \cup RangesFailed(ev)

Init == l = 1
Step == /\ l <= Len(Trace)
        /\ \A c \in Failed(Trace[l]) : PrintT(<<"REJECT", Trace[l].id, c>>)
        /\ l' = l + 1
Done == l = Len(Trace) + 1 /\ PrintT(<<"DONE", Len(Trace)>>) /\ l' = l + 1
Next == Step \/ Done
Spec == Init /\ [][Next]_l
=============================================================================
