------------------------------ MODULE Reuse_MC ------------------------------
(* All histories of <= Depth actions (Run, Save, Regen, ChangeOption) per kind    *)
(* of module results.  With Impl = FALSE, Regen takes every outcome the spec      *)
(* allows (the invariants show the allowed outcomes never leave stale results in  *)
(* use); with Impl = TRUE it takes the outcome of the implementation-shaped       *)
(* module that compares every recorded label except those in Ignored (Ignored =   *)
(* {} refines the spec; a forgotten guard is the negative control).  Every state  *)
(* carries its history: the histories are the behaviours replayed on real         *)
(* results objects.                                                               *)
EXTENDS Reuse, TLC
CONSTANTS Depth, KindSet, Impl, Ignored
VARIABLES kind, env, st, cur, r, sv, via, cls, ok, hist
vars == <<kind, env, st, cur, r, sv, via, cls, ok, hist>>

TtaThr == <<[a |-> 35, b |-> 100], [a |-> 50, b |-> 100], [a |-> 65, b |-> 100]>>
HmmThr == <<[a |-> 50, b |-> 1], [a |-> 100, b |-> 2], [a |-> 200, b |-> 5]>>
Thr(k, level) == CASE k = "tta" -> TtaThr[level] [] k = "hmmer" -> HmmThr[level] [] OTHER -> NoThr
Level(k, t) == IF k \in {"tta", "hmmer"} THEN CHOOSE i \in 1..3 : Thr(k, i) = t ELSE 1

Envs(k) == CASE k = "rules" -> {[fungi |-> f, gcn |-> 50, len |-> 100] : f \in BOOLEAN}
             [] k = "tta" -> {[fungi |-> FALSE, gcn |-> g, len |-> 100] : g \in {30, 40, 50, 60, 80}}
             [] OTHER -> {[fungi |-> FALSE, gcn |-> 50, len |-> 100]}
InitCtx(k) == {[strict |-> 1, subset |-> s, mult |-> 0, thr |-> Thr(k, lv), opt |-> 0, schema |-> 0, rec |-> 0] :
               s \in (IF k = "rules" THEN {0, 1} ELSE {0}), lv \in (IF k \in {"tta", "hmmer"} THEN {1, 2} ELSE {1})}
Changes(k) == CASE k = "rules" -> {"strictness", "ruleset", "multipliers", "schema", "record"}
                [] k = "sideload" -> {"option", "schema", "record"}
                [] k \in {"hmmer", "tta"} -> {"tighten", "loosen", "schema", "record"}
                [] OTHER -> {"schema", "record"}
Apply(k, ch, c) ==
    CASE ch = "strictness" -> [c EXCEPT !.strict = (@ + 1) % 3]
      [] ch = "ruleset" -> [c EXCEPT !.subset = (@ + 1) % 3]
      [] ch = "multipliers" -> [c EXCEPT !.mult = 1 - @]
      [] ch = "option" -> [c EXCEPT !.opt = 1 - @]
      [] ch = "schema" -> [c EXCEPT !.schema = 1 - @]
      [] ch = "record" -> [c EXCEPT !.rec = 1 - @]
      [] ch = "tighten" -> [c EXCEPT !.thr = Thr(k, IF Level(k, @) < 3 THEN Level(k, @) + 1 ELSE 3)]
      [] ch = "loosen" -> [c EXCEPT !.thr = Thr(k, IF Level(k, @) > 1 THEN Level(k, @) - 1 ELSE 1)]

Init == /\ kind \in KindSet
        /\ env \in Envs(kind)
        /\ cur \in InitCtx(kind)
        /\ st = "absent" /\ r = Fresh(cur) /\ sv = Fresh(cur) /\ via = "none" /\ cls = "none" /\ ok = TRUE /\ hist = <<>>

Run == /\ st = "absent"
       /\ st' = "fresh" /\ r' = Fresh(cur) /\ via' = "run" /\ cls' = "none"
       /\ hist' = Append(hist, [a |-> "Run", c |-> cur])
       /\ UNCHANGED <<kind, env, cur, sv, ok>>
Save == /\ st = "fresh"
        /\ st' = "saved" /\ sv' = r
        /\ hist' = Append(hist, [a |-> "Save", c |-> cur])
        /\ UNCHANGED <<kind, env, cur, r, via, cls, ok>>
Outcomes == IF Impl THEN {ImplOutcome(kind, env, sv, cur, Ignored)} ELSE Allowed(kind, env, sv, cur)
Regen == /\ st = "saved"
         /\ \E out \in Outcomes :
              /\ st' = IF out.o = "regenerated" THEN "fresh" ELSE "absent"
              /\ r' = out.r
              /\ ok' = (out \in Allowed(kind, env, sv, cur))
         /\ via' = "regen" /\ cls' = Class(kind, env, sv.made, cur)
         /\ hist' = Append(hist, [a |-> "Regen", c |-> cur])
         /\ UNCHANGED <<kind, env, cur, sv>>
Chg(ch) == /\ st = "saved"
           /\ cur' = Apply(kind, ch, cur)
           /\ hist' = Append(hist, [a |-> "Chg:" \o ch, c |-> cur'])
           /\ UNCHANGED <<kind, env, st, r, sv, via, cls, ok>>
Change == \E ch \in Changes(kind) : Chg(ch)
Next == Run \/ Save \/ Regen \/ Change
Spec == Init /\ [][Next]_vars
Bounded == Len(hist) <= Depth

(* results in use are never stale: whatever is held as fresh was made for (or soundly converted to) the context in force *)
NeverReinterpreted == st = "fresh" => ValidFor(kind, env, r, cur)
(* regenerating under unchanged recorded settings reproduces JSON and effects *)
ReproducedWhenSame == (st = "fresh" /\ via = "regen" /\ cls \in {"same", "soft"}) =>
                        /\ JsonOf(kind, env, r) = JsonOf(kind, env, sv)
                        /\ EffectsOf(kind, env, r) = EffectsOf(kind, env, sv)
(* a conversion yields what a fresh run under the new context would yield *)
ConvertedIsFresh == (st = "fresh" /\ via = "regen" /\ cls = "convert") =>
                        JsonOf(kind, env, r) = JsonOf(kind, env, Fresh(cur))
(* stale results are never regenerated *)
StaleDropped == (via = "regen" /\ cls = "stale") => st = "absent"
(* the implementation-shaped module only does what the spec allows *)
ImplWithinSpec == ok
(* classes are exhaustive and a conversion is only ever about the threshold *)
ClassSound == st = "saved" =>
    LET c == Class(kind, env, sv.made, cur) IN
    /\ c \in {"same", "soft", "convert", "stale"}
    /\ c = "convert" => kind \in {"hmmer", "tta"} /\ sv.made.thr # cur.thr
    /\ c \in {"same", "soft"} <=> ValidFor(kind, env, sv, cur)
=============================================================================
