----------------------------- MODULE Layout_MC -----------------------------
(* Generator + satisfiability for C19.  TLC enumerates small records         *)
(* ("universes" in the shape of RecordSM: genes + protoclusters +            *)
(* subregions on a line or ring), forms candidates and regions with the      *)
(* model of RecordSM / Candidates, and shows on every region that the        *)
(* layout relation of Layout.tla is satisfied by a constructive layout       *)
(* (sorted first-fit row packing on the unrolled coordinates) and that the   *)
(* constructive layout uses the fewest rows possible.  Negative controls:     *)
(* the same layout without the +L shift, and first-fit that only looks at     *)
(* the last area of a row fed in unsorted order, must violate the relation.   *)
(* The stage-2 states are the universes replayed on real records.             *)
EXTENDS Layout, RecordSM, TLC
CONSTANTS LenSet, CoreSizes, Hoods, SubSizes, GeneSets
VARIABLES stage, u
vars == <<stage, u>>

PA(core, extent, product) == [kind |-> "proto", core |-> core, extent |-> extent, product |-> product]
SA(extent) == [kind |-> "sub", core |-> extent, extent |-> extent, product |-> "sub"]
GN(loc, prods) == [loc |-> loc, core_for |-> prods]
Rings == {[L |-> n, circ |-> c] : n \in LenSet, c \in BOOLEAN}
Cores(r) == {Loc(p, 1) : p \in {p \in ArcParts(r) \cup CrossParts(r) : Size(Loc(p, 1)) \in CoreSizes}}
(* a core over the origin inside an extent that is the whole record as one part is refused by Protocluster() *)
Shapes(r) == {s \in {[core |-> c, extent |-> Extend(r, c, d)] : c \in Cores(r), d \in Hoods} : Bridges(s.core) => Bridges(s.extent)}
SubExtents(r) == {Loc(p, 1) : p \in {p \in ArcParts(r) \cup CrossParts(r) : Size(Loc(p, 1)) \in SubSizes}}
(* a total order on shapes so that unordered pairs are enumerated once *)
ShapeKey(s) == <<OuterStart(s.core), Size(s.core), OuterStart(s.extent), Size(s.extent)>>
KeyLeq(a, b) == \/ a[1] < b[1]
                \/ a[1] = b[1] /\ a[2] < b[2]
                \/ a[1] = b[1] /\ a[2] = b[2] /\ a[3] < b[3]
                \/ a[1] = b[1] /\ a[2] = b[2] /\ a[3] = b[3] /\ a[4] <= b[4]
(* gene sets: 0 none; 1 plain genes, one over the origin (ring) / at both record ends (line), one reverse;
   2 one core gene per protocluster on the first base of its core, annotated for both products (cores that share
     it form a chemical hybrid), plus a reverse-strand gene over the origin on a ring *)
Genes(r, shapes, k) ==
    CASE k = 0 -> <<>>
      [] k = 1 -> IF r.circ THEN <<GN(Loc(<< <<r.L - 1, r.L>>, <<0, 1>> >>, 1), <<>>), GN(Simple(2, 3, -1), <<>>), GN(Simple(r.L - 3, r.L - 2, 1), <<>>)>>
                  ELSE <<GN(Simple(0, 1, 1), <<>>), GN(Simple(2, 3, -1), <<>>), GN(Simple(r.L - 1, r.L, 1), <<>>)>>
      [] k = 2 -> [i \in DOMAIN shapes |-> GN(Simple(OuterStart(shapes[i].core), OuterStart(shapes[i].core) + 1, 1), <<"a", "b">>)]
                  \o (IF r.circ THEN <<GN(Loc(<< <<0, 1>>, <<r.L - 2, r.L>> >>, -1), <<>>)>> ELSE <<>>)
Products == <<"a", "b">>
MkUni(r, shapes, subs, k) ==
    [L |-> r.L, circ |-> r.circ, genes |-> Genes(r, shapes, k),
     areas |-> [i \in DOMAIN shapes |-> PA(shapes[i].core, shapes[i].extent, Products[i])] \o [i \in DOMAIN subs |-> SA(subs[i])]]
(* some enumeration of a small finite set *)
SetToSeq(S) == CHOOSE f \in [1..Cardinality(S) -> S] : \A i, j \in 1..Cardinality(S) : i # j => f[i] # f[j]
Dummy == MkUni([L |-> 4, circ |-> FALSE], <<>>, <<>>, 0)

Init == stage = 0 /\ u = Dummy
(* level 1: the record and its first area (shards the enumeration over the workers) *)
PickFirstProto == /\ stage = 0 /\ stage' = 1
                  /\ \E r \in Rings : \E s \in Shapes(r) : u' = MkUni(r, <<s>>, <<>>, 0)
PickNoProto == /\ stage = 0 /\ stage' = 1
               /\ \E r \in Rings : u' = MkUni(r, <<>>, <<>>, 0)
(* level 2: optional second protocluster, optional subregion, gene set *)
Complete == /\ stage = 1 /\ stage' = 2
            /\ LET r == [L |-> u.L, circ |-> u.circ]
                   first == [i \in DOMAIN u.areas |-> [core |-> u.areas[i].core, extent |-> u.areas[i].extent]]
                   seconds == IF first = <<>> THEN {<<>>}
                              ELSE {<<>>} \cup {<<s>> : s \in {s \in Shapes(r) : KeyLeq(ShapeKey(first[1]), ShapeKey(s))}}
                   subsets == {<<>>} \cup {<<x>> : x \in SubExtents(r)} \cup {<<Simple(0, r.L, 1)>>}
               IN  \E sec \in seconds : \E subs \in subsets : \E k \in GeneSets :
                       /\ (first = <<>> => subs # <<>>)
                       /\ u' = MkUni(r, first \o sec, subs, k)
Next == PickFirstProto \/ PickNoProto \/ Complete
Spec == Init /\ [][Next]_vars

(* --- regions of the model record ------------------------------------------------------------------------ *)
Built ==
    LET protos == {i \in DOMAIN u.areas : u.areas[i].kind = "proto"}
        s0 == [genes |-> DOMAIN u.genes, protos |-> protos, subs |-> DOMAIN u.areas \ protos, cands |-> {}, regions |-> {}]
        s1 == [s0 EXCEPT !.cands = ModelCands(u, s0)]
    IN  [s1 EXCEPT !.regions = ModelRegions(u, s1)]
RegionOf(r) ==
    LET cands == SetToSeq(r.cands)
        protos == SetToSeq(UNION {c.members : c \in r.cands})
        subs == SetToSeq(r.subs)
        genes == SetToSeq({g \in DOMAIN u.genes : Contains(r.loc, u.genes[g].loc)})
    IN  [L |-> u.L, circ |-> u.circ, loc |-> r.loc,
         areas |-> [i \in DOMAIN cands |-> [kind |-> "cand", core |-> cands[i].loc, extent |-> cands[i].loc, single |-> cands[i].kind = "single"]]
                   \o [i \in DOMAIN protos |-> [kind |-> "proto", core |-> u.areas[protos[i]].core, extent |-> u.areas[protos[i]].extent, single |-> FALSE]]
                   \o [i \in DOMAIN subs |-> [kind |-> "sub", core |-> u.areas[subs[i]].extent, extent |-> u.areas[subs[i]].extent, single |-> FALSE]],
         genes |-> [i \in DOMAIN genes |-> u.genes[genes[i]].loc]]
Regions == {RegionOf(r) : r \in Built.regions}

(* --- invariants ----------------------------------------------------------------------------------------------- *)
(* the relation is satisfiable: the constructive layout passes every clause *)
RefSatisfies == stage = 2 => \A reg \in Regions : LyFailed(reg, LyRef(reg)) = {}
(* and it is the best possible packing per kind *)
RefRowsMinimal == stage = 2 => \A reg \in Regions :
    LET ref == LyRef(reg)
        of(kind) == SelectSeq(ref.areas, LAMBDA p : p.kind = kind)
    IN  ref.rows = <<LyDepth(of("cand")), LyDepth(of("sub")), LyDepth(of("proto"))>>
(* regions never overlap themselves: what "after the origin" means is well defined *)
RegionsAreSpans == stage = 2 => \A reg \in Regions : IsSpan(LyRing(reg), reg.loc) /\ WellFormed(LyRing(reg), reg.loc)

(* negative control 1: forgetting the +L shift for coordinates after the origin is rejected wherever a region runs
   over the origin *)
NoShift(reg, x) == x
NoShiftAccepted == stage = 2 => \A reg \in Regions : LyFailed(reg, LyRefWith(reg, NoShift, LySorted)) = {}
NoShiftRejectedWhereSpanning == stage = 2 => \A reg \in Regions :
    LySpanning(reg) => LyFailed(reg, LyRefWith(reg, NoShift, LySorted)) # {}
(* negative control 2: every area on the first row is rejected as soon as two areas of one kind overlap *)
OneRow(out) == [out EXCEPT !.areas = [i \in DOMAIN out.areas |-> [out.areas[i] EXCEPT !.row = 1]]]
OneRowAccepted == stage = 2 => \A reg \in Regions : LyFailed(reg, OneRow(LyRef(reg))) = {}
(* negative control 3: dropping the second half of a split area is rejected *)
DropLinked(out) == [out EXCEPT !.areas = SelectSeq(out.areas, LAMBDA p : p.group = 0 \/ p.ne = u.L)]
DropLinkedAccepted == stage = 2 => \A reg \in Regions : LyFailed(reg, DropLinked(LyRef(reg))) = {}
=============================================================================
