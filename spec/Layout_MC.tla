----------------------------- MODULE Layout_MC -----------------------------
(* Generator + satisfiability for C19.  TLC enumerates small records         *)
(* ("universes" in the shape of RecordSM: genes + protoclusters +            *)
(* subregions on a line or ring), forms candidates and regions with the      *)
(* model of RecordSM / Candidates, and shows on every region that the        *)
(* layout relation of Layout.tla is satisfied by a constructive layout       *)
(* (sorted first-fit row packing on the unrolled coordinates) and that the   *)
(* constructive layout uses the fewest rows possible.  Negative controls:     *)
(* the same layout without the +L shift, and first-fit that only looks at     *)
(* the last area of a row fed in unsorted order, must violate the relation.   *)
(* The stage-2 states are the universes replayed on real records.             *)
EXTENDS Layout, RecordSM, TLC
CONSTANTS LenSet, CoreSizes, HoodsL, HoodsR, Core2Sizes, Hoods2, SubSizes, SubStarts, GeneSets
VARIABLES stage, u
vars == <<stage, u>>

PA(core, extent, product) == [kind |-> "proto", core |-> core, extent |-> extent, product |-> product]
SA(extent) == [kind |-> "sub", core |-> extent, extent |-> extent, product |-> "sub"]
GN(loc, prods) == [loc |-> loc, core_for |-> prods]
Rings == {[L |-> n, circ |-> c] : n \in LenSet, c \in BOOLEAN}
CoresOf(r, sizes) == {Loc(p, 1) : p \in {p \in ArcParts(r) \cup CrossParts(r) : Size(Loc(p, 1)) \in sizes}}
(* neighbourhoods of independent width to the left and to the right of the core: clipped on a line, wrapped on a ring *)
ExtendLR(r, core, dl, dr) ==
    IF ~r.circ THEN Simple(MaxOf({0, OuterStart(core) - dl}), MinOf({r.L, OuterEnd(core) + dr}), 1)
    ELSE LET n == Size(core) + dl + dr
         IN  IF n >= r.L THEN Simple(0, r.L, 1) ELSE SpanOfArc(r, (OuterStart(core) - dl) % r.L, n)
(* a core over the origin inside an extent that is the whole record as one part is refused by Protocluster() *)
Legal(s) == Bridges(s.core) => Bridges(s.extent)
Shapes1(r) == {s \in {[core |-> c, extent |-> ExtendLR(r, c, dl, dr)] : c \in CoresOf(r, CoreSizes), dl \in HoodsL, dr \in HoodsR} : Legal(s)}
Shapes2(r) == {s \in {[core |-> c, extent |-> ExtendLR(r, c, d, d)] : c \in CoresOf(r, Core2Sizes), d \in Hoods2} : Legal(s)}
SubExtents(r) == {Loc(p, 1) : p \in {p \in ArcParts(r) \cup CrossParts(r) : Size(Loc(p, 1)) \in SubSizes /\ p[1][1] \in SubStarts}}
(* gene sets: 0 none; 1 plain genes: one over the origin (ring) / at both record ends (line), one reverse;
   2 one single-base core gene per protocluster on the first base of its core, annotated for both products (cores that
     share it form a chemical hybrid), plus a reverse-strand gene over the origin on a ring; 3 both *)
PlainGenes(r) ==
    IF r.circ THEN <<GN(Loc(<< <<r.L - 1, r.L>>, <<0, 1>> >>, 1), <<>>), GN(Simple(2, 4, -1), <<>>), GN(Simple(r.L - 4, r.L - 2, 1), <<>>)>>
    ELSE <<GN(Simple(0, 2, 1), <<>>), GN(Simple(2, 4, -1), <<>>), GN(Simple(r.L - 2, r.L, 1), <<>>)>>
CoreGenes(r, shapes) ==
    [i \in DOMAIN shapes |->
        GN(Simple(OuterStart(shapes[i].core), OuterStart(shapes[i].core) + 1,
                  IF i = 2 /\ OuterStart(shapes[1].core) = OuterStart(shapes[2].core) THEN -1 ELSE 1), <<"a", "b">>)]
    \o (IF r.circ THEN <<GN(Loc(<< <<0, 1>>, <<r.L - 2, r.L>> >>, -1), <<>>)>> ELSE <<>>)
Genes(r, shapes, k) ==
    CASE k = 0 -> <<>>
      [] k = 1 -> PlainGenes(r)
      [] k = 2 -> CoreGenes(r, shapes)
      [] k = 3 -> PlainGenes(r) \o CoreGenes(r, shapes)
Products == <<"a", "b">>
MkUni(r, shapes, subs, k) ==
    [L |-> r.L, circ |-> r.circ, genes |-> Genes(r, shapes, k),
     areas |-> [i \in DOMAIN shapes |-> PA(shapes[i].core, shapes[i].extent, Products[i])] \o [i \in DOMAIN subs |-> SA(subs[i])]]
(* some enumeration of a small finite set *)
SetToSeq(S) == CHOOSE f \in [1..Cardinality(S) -> S] : \A i, j \in 1..Cardinality(S) : i # j => f[i] # f[j]
Dummy == MkUni([L |-> 4, circ |-> FALSE], <<>>, <<>>, 0)

Init == stage = 0 /\ u = Dummy
(* level 1: the record and its first area (shards the enumeration over the workers) *)
PickFirstProto == /\ stage = 0 /\ stage' = 1
                  /\ \E r \in Rings : \E s \in Shapes1(r) : u' = MkUni(r, <<s>>, <<>>, 0)
PickNoProto == /\ stage = 0 /\ stage' = 1
               /\ \E r \in Rings : u' = MkUni(r, <<>>, <<>>, 0)
(* level 2: optional second protocluster, optional subregion, gene set *)
Complete == /\ stage = 1 /\ stage' = 2
            /\ LET r == [L |-> u.L, circ |-> u.circ]
                   first == [i \in DOMAIN u.areas |-> [core |-> u.areas[i].core, extent |-> u.areas[i].extent]]
                   seconds == IF first = <<>> THEN {<<>>} ELSE {<<>>} \cup {<<s>> : s \in Shapes2(r)}
                   subsets == {<<>>} \cup {<<x>> : x \in SubExtents(r)} \cup {<<Simple(0, r.L, 1)>>}
               IN  \E sec \in seconds : \E subs \in subsets : \E k \in GeneSets :
                       /\ (first = <<>> => subs # <<>>)
                       /\ u' = MkUni(r, first \o sec, subs, k)
Next == PickFirstProto \/ PickNoProto \/ Complete
Spec == Init /\ [][Next]_vars

(* --- regions of the model record ------------------------------------------------------------------------ *)
(* protoclusters come first in u.areas, so their ids are their indices in the arrangement of Candidates.tla *)
Built ==
    LET protos == {i \in DOMAIN u.areas : u.areas[i].kind = "proto"}
        arr == [L |-> u.L, circ |-> u.circ, genes |-> u.genes,
                protos |-> [i \in 1..Cardinality(protos) |-> [core |-> u.areas[i].core, extent |-> u.areas[i].extent, product |-> u.areas[i].product]]]
        cands == IF protos = {} THEN {}
                 ELSE {[kind |-> c.kind, members |-> c.members, loc |-> ExtSpan(arr, c.members)] : c \in RefCands(arr)}
        ccore == [c \in cands |-> CoreSpan(arr, c.members)]
        s1 == [genes |-> DOMAIN u.genes, protos |-> protos, subs |-> DOMAIN u.areas \ protos, cands |-> cands, regions |-> {}]
    IN  [st |-> [s1 EXCEPT !.regions = ModelRegions(u, s1)], ccore |-> ccore]
RegionOf(r) ==
    LET cands == SetToSeq(r.cands)
        protos == SetToSeq(UNION {c.members : c \in r.cands})
        subs == SetToSeq(r.subs)
        genes == SelectSeq(u.genes, LAMBDA g : Contains(r.loc, g.loc))
    IN  [L |-> u.L, circ |-> u.circ, loc |-> r.loc,
         (* ccore: what the feature reports as its core coordinates (a candidate: the span of its members' cores) *)
         areas |-> [i \in DOMAIN cands |-> [kind |-> "cand", core |-> cands[i].loc, extent |-> cands[i].loc, single |-> cands[i].kind = "single",
                                             ccore |-> Built.ccore[cands[i]]]]
                   \o [i \in DOMAIN protos |-> [kind |-> "proto", core |-> u.areas[protos[i]].core, extent |-> u.areas[protos[i]].extent, single |-> FALSE,
                                                 ccore |-> u.areas[protos[i]].core]]
                   \o [i \in DOMAIN subs |-> [kind |-> "sub", core |-> u.areas[subs[i]].extent, extent |-> u.areas[subs[i]].extent, single |-> FALSE,
                                               ccore |-> u.areas[subs[i]].extent]],
         genes |-> [i \in DOMAIN genes |-> genes[i].loc]]
Regions == {RegionOf(r) : r \in Built.st.regions}

(* --- invariants ----------------------------------------------------------------------------------------------- *)
(* evaluated once per state: (1) the relation is satisfiable: the constructive layout passes every clause;
   (2) it is the best possible packing per kind: as many rows as the deepest stack of areas over one coordinate;
   (3) regions never overlap themselves, so "after the origin" is well defined *)
RefOK(reg) ==
    LET ref == LyRef(reg)
        of(kind) == SelectSeq(ref.areas, LAMBDA p : p.kind = kind)
    IN  /\ LyFailed(reg, ref) = {}
        /\ ref.rows = <<LyDepth(of("cand")), LyDepth(of("sub")), LyDepth(of("proto"))>>
        /\ IsSpan(LyRing(reg), reg.loc) /\ WellFormed(LyRing(reg), reg.loc)
RefSatisfiesAndMinimal == stage = 2 => \A reg \in Regions : RefOK(reg)

(* negative control 1: forgetting the +L shift for coordinates after the origin is rejected wherever a region runs
   over the origin *)
NoShift(reg, x) == x
NoShiftAccepted == stage = 2 => \A reg \in Regions : LyFailed(reg, LyRefWith(reg, NoShift, LySorted)) = {}
NoShiftRejectedWhereSpanning == stage = 2 => \A reg \in Regions :
    LySpanning(reg) => LyFailed(reg, LyRefWith(reg, NoShift, LySorted)) # {}
(* negative control 2: every area on the first row is rejected as soon as two areas of one kind overlap *)
OneRow(out) == [out EXCEPT !.areas = [i \in DOMAIN out.areas |-> [out.areas[i] EXCEPT !.row = 1]]]
OneRowAccepted == stage = 2 => \A reg \in Regions : LyFailed(reg, OneRow(LyRef(reg))) = {}
(* negative control 3: dropping the second half of a split area is rejected *)
DropLinked(out) == [out EXCEPT !.areas = SelectSeq(out.areas, LAMBDA p : p.group = 0 \/ p.ne = u.L)]
DropLinkedAccepted == stage = 2 => \A reg \in Regions : LyFailed(reg, DropLinked(LyRef(reg))) = {}

(* --- implementation-shaped companion: the branches of adjust_cross_origin_area / build_area_rows ---------------------- *)
(* variant "as_found": an area "has a core" when the feature has core coordinates (candidates do), and the side of the   *)
(* origin a core lies on is guessed from the record midpoint; variant "repaired": only protoclusters have a core and the  *)
(* side is read from the coordinates.  Rows are packed with the reference packing (Row/pack are not modelled).            *)
ImplPieces(reg, a, idx, variant) ==
    LET L == reg.L
        spanning == LySpanning(reg)
        over == reg.circ /\ (spanning \/ (LyStart(reg) = 0 /\ LyEnd(reg) = L))
        p == [kind |-> a.kind, start |-> OuterStart(a.core), end |-> OuterEnd(a.core),
              ns |-> OuterStart(a.extent), ne |-> OuterEnd(a.extent), row |-> 0, group |-> 0]
        cs == OuterStart(a.ccore)
        ce == OuterEnd(a.ccore)
        hasCore == IF variant = "repaired" THEN a.kind = "proto" ELSE a.kind \in {"proto", "cand"}
        coreBefore == IF variant = "repaired" THEN cs >= p.ns ELSE L - cs < ce
        g == [p EXCEPT !.group = idx]
    IN  IF over /\ Bridges(a.extent) THEN
            IF ~hasCore THEN
                IF spanning THEN <<[p EXCEPT !.end = @ + L, !.ne = p.end + L]>>
                ELSE <<[g EXCEPT !.end = L, !.ne = L], [g EXCEPT !.start = 0, !.ns = 0, !.end = p.ne, !.ne = p.ne]>>
            ELSE IF Bridges(a.ccore) THEN
                IF spanning THEN <<[p EXCEPT !.end = @ + L, !.ne = @ + L]>>
                ELSE <<[g EXCEPT !.end = L, !.ne = L], [g EXCEPT !.start = 0, !.ns = 0]>>
            ELSE IF coreBefore THEN
                IF spanning THEN <<[p EXCEPT !.ne = @ + L]>>
                ELSE <<[g EXCEPT !.ne = L], [g EXCEPT !.start = 0, !.end = 0, !.ns = 0]>>
            ELSE
                IF spanning THEN <<[p EXCEPT !.start = @ + L, !.end = @ + L, !.ne = @ + L]>>
                ELSE <<[g EXCEPT !.start = L, !.end = L, !.ne = L], [g EXCEPT !.ns = 0]>>
        ELSE IF over /\ spanning /\ Bases(a.extent) \subseteq 0..(LyEnd(reg) - 1)
             THEN <<[p EXCEPT !.start = @ + L, !.end = @ + L, !.ns = @ + L, !.ne = @ + L]>>
        ELSE <<p>>
ImplLayout(reg, variant) ==
    LET ref == LyRef(reg)
        hasSubs == \E i \in DOMAIN reg.areas : reg.areas[i].kind = "sub"
        of(kind) == LyFlatten([i \in DOMAIN reg.areas |->
                        IF reg.areas[i].kind = kind /\ (kind # "cand" \/ hasSubs \/ ~reg.areas[i].single)
                        THEN ImplPieces(reg, reg.areas[i], i, variant) ELSE <<>>], 1)
        (* a piece whose end precedes its start cannot be packed by coordinates: it gets a row of its own *)
        sane(ps) == SelectSeq(ps, LAMBDA q : q.ns < q.ne)
        odd(ps) == SelectSeq(ps, LAMBDA q : q.ns >= q.ne)
        c == LyPack(LySorted(sane(of("cand"))), 0)
        sb == LyPack(LySorted(sane(of("sub"))), c.rows)
        pr == LyPack(LySorted(sane(of("proto"))), c.rows + sb.rows)
        rest == odd(of("cand")) \o odd(of("sub")) \o odd(of("proto"))
    IN  [ann |-> ref.ann, genes |-> ref.genes,
         areas |-> c.pieces \o sb.pieces \o pr.pieces \o [i \in DOMAIN rest |-> [rest[i] EXCEPT !.row = 100 + i]]]
ImplRepairedSatisfies == stage = 2 => \A reg \in Regions : LyFailed(reg, ImplLayout(reg, "repaired")) = {}
(* expected to be violated: TLC exhibits the design-level counterexample of the branches as found *)
ImplAsFoundSatisfies == stage = 2 => \A reg \in Regions : LyFailed(reg, ImplLayout(reg, "as_found")) = {}
=============================================================================
