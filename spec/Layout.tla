------------------------------- MODULE Layout -------------------------------
(***************************************************************************)
(* Layout data of the interactive region overview (C19), as a relation      *)
(* between a region and what is drawn for it.                                *)
(*                                                                          *)
(* region  reg == [L, circ, loc,                                             *)
(*                 areas : Seq([kind : "proto"|"cand"|"sub", core, extent,   *)
(*                              single : BOOLEAN]),                          *)
(*                 genes : Seq(location)]                                    *)
(*   (locations as in Ring.tla; a candidate or subregion has core = extent;  *)
(*    single is TRUE only for candidates of kind "single")                   *)
(* drawn piece p == [kind, start, end, ns, ne, row, group]                    *)
(*   ns/ne = neighbouring_start/neighbouring_end (the full extent),          *)
(*   start/end = the core, all 0-based half-open; row = the drawing height;  *)
(*   group = 0, or the same non-zero number on two linked halves             *)
(* drawn gene g == [start, end, group]   (start 1-based, end inclusive)       *)
(* announced range ann == [start, end]   (as printed for the region)         *)
(*                                                                          *)
(* Drawing coordinates: for a region running over the origin the range       *)
(* continues past L: a base x after the origin is drawn at x + L.  Every     *)
(* clause below is a statement about sets of drawing coordinates.            *)
(***************************************************************************)
EXTENDS Ring

LyRing(reg) == [L |-> reg.L, circ |-> reg.circ]
LySpanning(reg) == Bridges(reg.loc)
LyStart(reg) == OuterStart(reg.loc)
LyEnd(reg) == OuterEnd(reg.loc)
(* genome coordinate -> drawing coordinate *)
LyUnroll(reg, x) == IF LySpanning(reg) /\ x < LyEnd(reg) THEN x + reg.L ELSE x
LyUnrollSet(reg, S) == {LyUnroll(reg, x) : x \in S}
LyMod(reg, S) == {x % reg.L : x \in S}
LyIsInterval(S) == S = {} \/ Cardinality(S) = MaxOf(S) - MinOf(S) + 1
LyKinds == {"proto", "cand", "sub"}

(* the stretch of record an area / a gene occupies, outer start to outer end *)
LyExtent(reg, a) == Footprint(LyRing(reg), a.extent)
LyCore(reg, a) == Footprint(LyRing(reg), a.core)
LyGene(reg, g) == Footprint(LyRing(reg), g)

(* --- what is drawn --------------------------------------------------------------------------------- *)
LyBases(p) == p.ns..(p.ne - 1)
LyCoreBases(p) == p.start..(p.end - 1)
LyGeneBases(g) == (g.start - 1)..(g.end - 1)
(* units: an unlinked piece, or all pieces carrying the same non-zero group *)
LyUnits(ps) == {{i} : i \in {i \in DOMAIN ps : ps[i].group = 0}}
               \cup {{i \in DOMAIN ps : ps[i].group = g} : g \in {ps[i].group : i \in DOMAIN ps} \ {0}}
LyUnitsOf(ps, kind) == {u \in LyUnits(ps) : \A i \in u : ps[i].kind = kind}
LyUnitBases(ps, u) == UNION {LyBases(ps[i]) : i \in u}
LyUnitCore(ps, u) == UNION {LyCoreBases(ps[i]) : i \in u}
LyGeneUnitBases(gs, u) == UNION {LyGeneBases(gs[i]) : i \in u}

(* bags of keys: F, G functions from index sets I, J to keys *)
LyCount(F, I, k) == Cardinality({i \in I : F[i] = k})
LyBagEq(F, I, G, J) == \A k \in {F[i] : i \in I} \cup {G[j] : j \in J} : LyCount(F, I, k) = LyCount(G, J, k)
(* at least the must-part M (over J), at most everything G (over J) *)
LyBagBetween(F, I, G, J, Must) ==
    \A k \in {F[i] : i \in I} \cup {G[j] : j \in J} :
        /\ LyCount(F, I, k) <= LyCount(G, J, k)
        /\ LyCount(F, I, k) >= LyCount(G, {j \in J : Must[j]}, k)

(* --- the clauses on drawn areas (no announced range needed) ------------------------------------------- *)
LyPieceFailed(reg, ps) ==
    (IF \E i \in DOMAIN ps : ps[i].kind \notin LyKinds THEN {"known_kind_of_area"} ELSE {})
    \cup {"core_inside_own_extent:" \o ps[i].kind :
             i \in {i \in DOMAIN ps : ~(ps[i].ns <= ps[i].start /\ ps[i].start <= ps[i].end /\ ps[i].end <= ps[i].ne)}}
    \cup (IF \E i \in DOMAIN ps : ps[i].ns >= ps[i].ne THEN {"extent_not_empty"} ELSE {})
    \cup (IF \E i, j \in DOMAIN ps : i < j /\ ps[i].row = ps[j].row /\ LyBases(ps[i]) \cap LyBases(ps[j]) # {}
          THEN {"same_row_areas_do_not_overlap"} ELSE {})
    \cup (IF \E u \in LyUnits(ps) : \/ Cardinality(u) > 2
                                    \/ (Cardinality(u) = 1 /\ \E i \in u : ps[i].group # 0)
                                    \/ \E i, j \in u : ps[i].kind # ps[j].kind
          THEN {"linked_halves_are_two_of_a_kind"} ELSE {})
    \cup (IF \E u \in LyUnits(ps) : Cardinality(u) = 2 /\
                ~\E i, j \in u : i # j /\ ps[i].ne = reg.L /\ ps[j].ns = 0
          THEN {"split_only_at_the_origin"} ELSE {})

(* one kind of area: drawn exactly once up to the shift by L, then at the right drawing coordinates *)
LyKindFailed(reg, ps, kind, name) ==
    LET I == {i \in DOMAIN reg.areas : reg.areas[i].kind = kind}
        U == LyUnitsOf(ps, kind)
        must == [i \in I |-> ~reg.areas[i].single]
        inMod == [i \in I |-> LyExtent(reg, reg.areas[i])]
        outMod == [u \in U |-> LyMod(reg, LyUnitBases(ps, u))]
        inAt == [i \in I |-> LyUnrollSet(reg, LyExtent(reg, reg.areas[i]))]
        outAt == [u \in U |-> LyUnitBases(ps, u)]
        inCore == [i \in I |-> <<inAt[i], LyUnrollSet(reg, LyCore(reg, reg.areas[i]))>>]
        outCore == [u \in U |-> <<outAt[u], LyUnitCore(ps, u)>>]
    IN  IF ~LyBagBetween(outMod, U, inMod, I, must) THEN {name}
        ELSE IF ~LyBagBetween(outAt, U, inAt, I, must) THEN {"drawing_order_is_genome_order"}
        ELSE IF kind = "proto" /\ ~LyBagEq(outCore, U, inCore, I) THEN {"protocluster_core_is_its_core"}
        ELSE {}

LyAreasFailed(reg, ps) ==
    LyPieceFailed(reg, ps)
    \cup LyKindFailed(reg, ps, "proto", "every_protocluster_drawn_exactly_once")
    \cup LyKindFailed(reg, ps, "sub", "every_subregion_drawn_exactly_once")
    \cup LyKindFailed(reg, ps, "cand", "candidate_drawn_once_single_at_most_once")

(* --- the clauses that need the announced range ---------------------------------------------------------- *)
(* the start is printed 1-based for ordinary regions and 0-based for regions over the origin: either reading
   of "region start" is accepted; the end is the region's end, continued past L over the origin *)
LyRangeFailed(reg, ann) ==
    IF /\ ann.end = (IF LySpanning(reg) THEN reg.L + LyEnd(reg) ELSE LyEnd(reg))
       /\ ann.start \in {LyStart(reg), LyStart(reg) + 1}
    THEN {} ELSE {"announced_range_is_the_region"}
LyInRangeFailed(ann, ps) ==
    IF \E i \in DOMAIN ps : ps[i].ns < ann.start - 1 \/ ps[i].ne > ann.end
    THEN {"area_inside_announced_range"} ELSE {}

LyGenesFailed(reg, ann, gs) ==
    LET I == DOMAIN reg.genes
        U == LyUnits(gs)
        inMod == [i \in I |-> LyGene(reg, reg.genes[i])]
        outMod == [u \in U |-> LyMod(reg, LyGeneUnitBases(gs, u))]
        inAt == [i \in I |-> LyUnrollSet(reg, LyGene(reg, reg.genes[i]))]
        outAt == [u \in U |-> LyGeneUnitBases(gs, u)]
    IN  (IF \E i \in DOMAIN gs : gs[i].start > gs[i].end THEN {"gene_not_empty"} ELSE {})
        \cup (IF \E i \in DOMAIN gs : gs[i].start < ann.start - 1 \/ gs[i].end > ann.end
              THEN {"gene_inside_announced_range"} ELSE {})
        \cup (IF \E u \in U : Cardinality(u) > 2 \/ (Cardinality(u) = 1 /\ \E i \in u : gs[i].group # 0)
              THEN {"gene_halves_are_two"} ELSE {})
        \cup (IF \E u \in U : Cardinality(u) = 2 /\ ~\E i, j \in u : i # j /\ gs[i].end = reg.L /\ gs[j].start = 1
              THEN {"gene_split_only_at_the_origin"} ELSE {})
        \cup (IF ~LyBagEq(outMod, U, inMod, I) THEN {"every_gene_drawn_exactly_once"}
              ELSE IF ~LyBagEq(outAt, U, inAt, I) THEN {"gene_drawing_order_is_genome_order"}
              ELSE {})

(* a complete layout out == [ann, areas, genes] *)
LyFailed(reg, out) ==
    LyAreasFailed(reg, out.areas) \cup LyRangeFailed(reg, out.ann) \cup LyInRangeFailed(out.ann, out.areas)
    \cup LyGenesFailed(reg, out.ann, out.genes)

(* --- a constructive layout: greedy first-fit row packing on the unrolled coordinates ------------------ *)
LyPiece(kind, S, C, edge, group) ==
    [kind |-> kind, ns |-> MinOf(S), ne |-> MaxOf(S) + 1,
     start |-> IF C \cap S = {} THEN edge ELSE MinOf(C \cap S),
     end |-> IF C \cap S = {} THEN edge ELSE MaxOf(C \cap S) + 1,
     row |-> 0, group |-> group]
(* unroll maps the identity or the +L shift; shiftFn lets the negative control plug in a wrong map *)
LyPiecesOfArea(reg, a, idx, Sh(_, _)) ==
    LET B == {Sh(reg, x) : x \in LyExtent(reg, a)}
        C == {Sh(reg, x) : x \in LyCore(reg, a)}
    IN  IF LyIsInterval(B) THEN <<LyPiece(a.kind, B, C, MinOf(B), 0)>>
        ELSE LET hi == {x \in B : x >= OuterStart(a.extent)}
                 lo == B \ hi
             IN  <<LyPiece(a.kind, hi, C, MaxOf(hi) + 1, idx), LyPiece(a.kind, lo, C, MinOf(lo), idx)>>
RECURSIVE LyFlatten(_, _)
LyFlatten(seqs, i) == IF i > Len(seqs) THEN <<>> ELSE seqs[i] \o LyFlatten(seqs, i + 1)
LyPiecesOfKind(reg, kind, Sh(_, _)) ==
    LyFlatten([i \in DOMAIN reg.areas |-> IF reg.areas[i].kind = kind THEN LyPiecesOfArea(reg, reg.areas[i], i, Sh) ELSE <<>>], 1)
(* insertion sort by (start of extent, longer first) *)
LyBefore(p, q) == p.ns < q.ns \/ (p.ns = q.ns /\ p.ne >= q.ne)
RECURSIVE LyInsert(_, _, _)
LyInsert(sorted, p, i) == IF i > Len(sorted) THEN Append(sorted, p)
                          ELSE IF LyBefore(p, sorted[i]) THEN SubSeq(sorted, 1, i - 1) \o <<p>> \o SubSeq(sorted, i, Len(sorted))
                          ELSE LyInsert(sorted, p, i + 1)
RECURSIVE LySortFrom(_, _, _)
LySortFrom(ps, i, acc) == IF i > Len(ps) THEN acc ELSE LySortFrom(ps, i + 1, LyInsert(acc, ps[i], 1))
LySorted(ps) == LySortFrom(ps, 1, <<>>)
(* first fit: occ[r] = coordinates taken in row r; result: the pieces with their row (offset by base) *)
RECURSIVE LyPackFrom(_, _, _, _, _)
LyPackFrom(ps, i, occ, base, acc) ==
    IF i > Len(ps) THEN [pieces |-> acc, rows |-> Len(occ)]
    ELSE LET fits == {r \in DOMAIN occ : occ[r] \cap LyBases(ps[i]) = {}}
         IN  IF fits = {} THEN LyPackFrom(ps, i + 1, Append(occ, LyBases(ps[i])), base, Append(acc, [ps[i] EXCEPT !.row = base + Len(occ) + 1]))
             ELSE LyPackFrom(ps, i + 1, [occ EXCEPT ![MinOf(fits)] = @ \cup LyBases(ps[i])], base, Append(acc, [ps[i] EXCEPT !.row = base + MinOf(fits)]))
LyPack(ps, base) == LyPackFrom(ps, 1, <<>>, base, <<>>)
LyGenePieces(reg, g, idx, Sh(_, _)) ==
    LET B == {Sh(reg, x) : x \in LyGene(reg, g)}
    IN  IF LyIsInterval(B) THEN <<[start |-> MinOf(B) + 1, end |-> MaxOf(B) + 1, group |-> 0]>>
        ELSE LET hi == {x \in B : x >= OuterStart(g)}
                 lo == B \ hi
             IN  <<[start |-> MinOf(hi) + 1, end |-> MaxOf(hi) + 1, group |-> idx], [start |-> MinOf(lo) + 1, end |-> MaxOf(lo) + 1, group |-> idx]>>
LyRefWith(reg, Sh(_, _), Srt(_)) ==
    LET c == LyPack(Srt(LyPiecesOfKind(reg, "cand", Sh)), 0)
        s == LyPack(Srt(LyPiecesOfKind(reg, "sub", Sh)), c.rows)
        p == LyPack(Srt(LyPiecesOfKind(reg, "proto", Sh)), c.rows + s.rows)
    IN  [ann |-> [start |-> LyStart(reg) + 1, end |-> IF LySpanning(reg) THEN reg.L + LyEnd(reg) ELSE LyEnd(reg)],
         areas |-> c.pieces \o s.pieces \o p.pieces,
         genes |-> LyFlatten([i \in DOMAIN reg.genes |-> LyGenePieces(reg, reg.genes[i], i, Sh)], 1),
         rows |-> <<c.rows, s.rows, p.rows>>]
LyRef(reg) == LyRefWith(reg, LyUnroll, LySorted)
(* sorted first-fit is optimal on intervals: as many rows as the deepest stack of areas over one coordinate *)
LyDepth(ps) == IF ps = <<>> THEN 0
               ELSE MaxOf({Cardinality({i \in DOMAIN ps : x \in LyBases(ps[i])}) : x \in UNION {LyBases(ps[i]) : i \in DOMAIN ps}})
=============================================================================
