---------------------------- MODULE Layout_Trace ----------------------------
(***************************************************************************)
(* Trace validation for C19.  One event = one real record:                   *)
(*  ev == [id, L, circ,                                                       *)
(*         regions : Seq([loc, areas, genes,            \* the region, Layout.tla *)
(*                        rows : [exc, v : Seq(piece)]]), \* build_area_rows      *)
(*         ov : [exc, v : Seq([start, end, orfs : Seq([start, end, group]),       *)
(*                             clusters : Seq(piece)])]]  \* js.convert_regions   *)
(* regions and ov.v are both in the order of record.get_regions().            *)
(***************************************************************************)
EXTENDS Layout, TLC, Json, IOUtils
VARIABLE l
Trace == ndJsonDeserialize(IOEnv.TRACE_FILE)

Tag(op, S) == {op \o "/" \o c : c \in S}
Exc(op, res) == IF res.exc # "" THEN {op \o "/no_exception:" \o res.exc} ELSE {}
RegOf(ev, r) == [L |-> ev.L, circ |-> ev.circ, loc |-> r.loc, areas |-> r.areas, genes |-> r.genes]

RowsFailed(ev) ==
    UNION {Exc("rows", ev.regions[i].rows)
           \cup (IF ev.regions[i].rows.exc = "" THEN Tag("rows", LyAreasFailed(RegOf(ev, ev.regions[i]), ev.regions[i].rows.v)) ELSE {})
           : i \in DOMAIN ev.regions}
OverviewOne(reg, rows, o) ==
    LET ann == [start |-> o.start, end |-> o.end] IN
    LyRangeFailed(reg, ann) \cup LyInRangeFailed(ann, o.clusters) \cup LyGenesFailed(reg, ann, o.orfs)
    (* the embedded layout is decided on its own only where it is not the one already decided above *)
    \cup (IF rows.exc = "" /\ rows.v = o.clusters THEN {} ELSE LyAreasFailed(reg, o.clusters))
OverviewFailed(ev) ==
    Exc("overview", ev.ov)
    \cup (IF ev.ov.exc # "" THEN {}
          ELSE IF Len(ev.ov.v) # Len(ev.regions) THEN {"overview/one_entry_per_region"}
          ELSE Tag("overview", UNION {OverviewOne(RegOf(ev, ev.regions[i]), ev.regions[i].rows, ev.ov.v[i]) : i \in DOMAIN ev.regions}))

Failed(ev) == RowsFailed(ev) \cup OverviewFailed(ev)

Init == l = 1
Step == /\ l <= Len(Trace)
        /\ \A c \in Failed(Trace[l]) : PrintT(<<"REJECT", Trace[l].id, c>>)
        /\ l' = l + 1
Done == l = Len(Trace) + 1 /\ PrintT(<<"DONE", Len(Trace)>>) /\ l' = l + 1
Next == Step \/ Done
Spec == Init /\ [][Next]_l
=============================================================================
