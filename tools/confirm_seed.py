#!/venv/bin/python
""" tools/confirm_seed.py <seed id> <dir with patch.diff demo.py meta.json> <check id> [<check id> ...] [--tier quick]

    Confirms a seeded change independently in a scratch worktree of /repo's HEAD (demo fails with the change, passes
    without; the repository's baseline suite still passes with it), runs the named checks against it with
    tools/with_mutant.sh, and files everything under /verif/seeded/<seed id>/. Nothing is ever applied to /repo.
"""
import json, os, shutil, subprocess, sys, tempfile, time

VERIF = os.path.dirname(os.path.dirname(os.path.abspath(__file__)))


def sh(cmd, cwd=None, env=None, timeout=3600):
    try:
        proc = subprocess.run(cmd, cwd=cwd, env=env, stdout=subprocess.PIPE, stderr=subprocess.STDOUT, timeout=timeout, check=False)
    except subprocess.TimeoutExpired as err:
        subprocess.run(["pkill", "-f", " ".join(cmd[-3:])], check=False)
        return 124, (err.stdout or b"").decode("utf-8", "replace") + "\n[timed out]"
    return proc.returncode, proc.stdout.decode("utf-8", "replace")


def main():
    args = [a for a in sys.argv[1:] if not a.startswith("--")]
    tier = "thorough" if "--thorough" in sys.argv else "quick"
    seed_id, src, checks = args[0], args[1], args[2:]
    patch = os.path.join(src, "patch.diff")
    wt = tempfile.mkdtemp(prefix="wt_confirm_", dir="/tmp")
    os.rmdir(wt)
    result = {"seed": seed_id, "confirmed_at_repo_head": sh(["git", "-C", "/repo", "rev-parse", "--short=8", "HEAD"])[1].strip()}
    try:
        rc, out = sh(["git", "-C", "/repo", "worktree", "add", "-q", "--detach", wt, "HEAD"])
        assert rc == 0, out
        # demos often assert that antismash resolves inside the seed agent's own worktree: point them at this one
        with open(os.path.join(src, "demo.py"), encoding="utf-8") as handle:
            demo_text = handle.read()
        for original in {os.path.abspath(src), os.path.abspath(src).replace("_ported", "")}:
            demo_text = demo_text.replace(original, wt)
        with open(os.path.join(wt, "demo_seed.py"), "w", encoding="utf-8") as handle:
            handle.write(demo_text)
        rc_clean, out_clean = sh(["/venv/bin/python", "demo_seed.py"], cwd=wt)
        rc, out = sh(["git", "apply", "--exclude=demo.py", "--exclude=patch.diff", "--exclude=meta.json", patch], cwd=wt)
        result["patch_applies_to_head"] = rc == 0
        if rc != 0:
            result["apply_error"] = out[-500:]
        else:
            rc_mut, out_mut = sh(["/venv/bin/python", "demo_seed.py"], cwd=wt)
            result["demo_exit_without_change"] = rc_clean
            result["demo_exit_with_change"] = rc_mut
            result["demo_output_with_change"] = out_mut[-600:]
            os.unlink(os.path.join(wt, "demo_seed.py"))
            rc_base, out_base = sh([os.path.join(VERIF, "tools", "baseline.py"), wt])
            result["baseline_with_change"] = out_base.strip().splitlines()[0] if out_base.strip() else ""
            result["baseline_ok"] = rc_base == 0
    finally:
        sh(["git", "-C", "/repo", "worktree", "remove", "--force", wt])
        shutil.rmtree(wt, ignore_errors=True)
        sh(["git", "-C", "/repo", "worktree", "prune"])
    result["checks"] = {}
    if result.get("patch_applies_to_head"):
        for check in checks:
            start = time.time()
            rc, out = sh([os.path.join(VERIF, "tools", "with_mutant.sh"), patch, os.path.join(VERIF, "check"), check, "--tier", tier], cwd=VERIF)
            lines = [l for l in out.splitlines() if l.startswith("VIOLATION") or l.startswith("  op=") or l.startswith("[") or "MACHINERY" in l]
            result["checks"][check] = {"tier": tier, "exit": rc, "detected": rc == 1, "wall_s": round(time.time() - start, 1),
                                       "violations": [l[:260] for l in lines if l.startswith("  op=")][:6],
                                       "summary": [l for l in lines if l.startswith("[")][-1:] }
    dest = os.path.join(VERIF, "seeded", seed_id)
    os.makedirs(dest, exist_ok=True)
    for name in ("patch.diff", "demo.py"):
        shutil.copy(os.path.join(src, name), os.path.join(dest, name))
    meta = {}
    if os.path.exists(os.path.join(src, "meta.json")):
        try:
            meta = json.load(open(os.path.join(src, "meta.json")))
        except ValueError:
            meta = {"raw": open(os.path.join(src, "meta.json")).read()}
    meta["confirmation"] = result
    with open(os.path.join(dest, "meta.json"), "w") as handle:
        json.dump(meta, handle, indent=1)
    print(json.dumps(result, indent=1))


if __name__ == "__main__":
    main()
