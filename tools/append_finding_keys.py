#!/venv/bin/python
""" tools/append_finding_keys.py <finding id> <op> <proposals.ndjson> [required feature ...]

    Adds the keys of the proposed failures (output of `./check Cnn --propose-findings`) with the given op and all the
    required features to the cases file of an existing finding entry. A maintenance tool for when a recorded defect
    becomes visible through a further observation of the same call site; never run by a check.
"""
import json, os, sys

VERIF = os.path.dirname(os.path.dirname(os.path.abspath(__file__)))


def main():
    ident, op, path, required = sys.argv[1], sys.argv[2], sys.argv[3], set(sys.argv[4:])
    cases_path = os.path.join(VERIF, "known_findings", f"{ident}.cases.ndjson")
    with open(cases_path, encoding="utf-8") as handle:
        keys = {json.loads(line)["key"] for line in handle if line.strip()}
    before = len(keys)
    skipped = 0
    with open(path, encoding="utf-8") as handle:
        for line in handle:
            if not line.startswith("{"):
                continue
            row = json.loads(line)
            if row["op"] != op:
                continue
            if not required <= set(row["features"]):
                skipped += 1
                continue
            keys.add(row["key"])
    with open(cases_path, "w", encoding="utf-8") as handle:
        for key in sorted(keys):
            handle.write(json.dumps({"key": key}) + "\n")
    print(f"{ident}: {before} -> {len(keys)} keys ({skipped} rows of op {op} lacked the required features)")


if __name__ == "__main__":
    main()
