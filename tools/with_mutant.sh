#!/bin/sh
# usage: tools/with_mutant.sh <patch.diff> <command...>
# Applies the patch to a scratch git worktree of /repo (outside /repo and /verif), runs the command with
# VERIF_REPO pointing at it, removes the worktree. Exit status = the command's.
set -u
PATCH=$(realpath "$1"); shift
WT=$(mktemp -d /tmp/wt_mutant_XXXXXX)
rmdir "$WT"
git -C /repo worktree add -q --detach "$WT" HEAD || exit 2
cleanup() { git -C /repo worktree remove --force "$WT" >/dev/null 2>&1; rm -rf "$WT"; git -C /repo worktree prune; }
trap cleanup EXIT INT TERM
# carry over uncommitted changes of /repo's working tree (checks run against the working tree)
git -C /repo diff HEAD | (cd "$WT" && git apply --allow-empty 2>/dev/null || true)
(cd "$WT" && git apply "$PATCH") || { echo "patch does not apply"; exit 2; }
VERIF_REPO="$WT" "$@"
