#!/venv/bin/python
""" Regenerates /verif/seeded/README.md from seeded/*/meta.json """
import glob, json, os
HERE = os.path.dirname(os.path.dirname(os.path.abspath(__file__)))
rows = []
for path in sorted(glob.glob(os.path.join(HERE, "seeded", "*", "meta.json"))):
    meta = json.load(open(path))
    conf = meta.get("confirmation", {})
    name = os.path.basename(os.path.dirname(path))
    checks = "; ".join(f"{c}: {'DETECTED' if v.get('detected') else 'missed (exit %s)' % v.get('exit')} ({v.get('tier')})"
                       for c, v in conf.get("checks", {}).items())
    first = ""
    for v in conf.get("checks", {}).values():
        if v.get("violations"):
            first = v["violations"][0].split(" input=")[0].strip()
            break
    rows.append((name, meta.get("property", ""), meta.get("summary", "").replace("|", "/"), meta.get("needs", "").replace("|", "/"),
                 f"demo {conf.get('demo_exit_without_change')}->{conf.get('demo_exit_with_change')}, suite {'ok' if conf.get('baseline_ok') else 'CHANGED'}",
                 checks, first))
with open(os.path.join(HERE, "seeded", "README.md"), "w") as out:
    out.write("# Seeded changes\n\nEach directory holds a change written by an independent sub-agent that was given only the text of one property "
              "and a scratch worktree of the repository (nothing from /verif): `patch.diff`, `demo.py` (fails with the change, passes "
              "without) and `meta.json` (what it needs to manifest, what was run). `meta.json.confirmation` is written by "
              "`tools/confirm_seed.py`, which re-confirms demo and test suite in a fresh scratch worktree of /repo's HEAD and runs the named "
              "checks against the change with `tools/with_mutant.sh` (nothing is ever applied to /repo).\n\n")
    out.write("| seed | property | change | needs | confirmed | checks | first failed clause |\n|---|---|---|---|---|---|---|\n")
    for row in rows:
        out.write("| " + " | ".join(str(x) for x in row) + " |\n")
print(f"{len(rows)} seeds")
