#!/venv/bin/python
""" Prints a markdown table of the checks as built, from MANIFEST.json and the evidence files. """
import json, os
HERE = os.path.dirname(os.path.dirname(os.path.abspath(__file__)))
man = json.load(open(os.path.join(HERE, "MANIFEST.json")))
print("| id | spec modules | model states | executions against antiSMASH | known findings hit | tier / wall |")
print("|---|---|---|---|---|---|")
mods = {"C01": "RuleAst", "C02": "RuleGrammar", "C03": "Detect (RuleAst, Ring)", "C04": "Ring", "C05": "Candidates", "C06": "RecordSM, RegionsImpl",
        "C07": "Detect, Pipeline_Trace", "C08": "Genes, RecordSM", "C09": "Translate", "C10": "Persist (RecordSM)", "C11": "Reuse",
        "C12": "Persist (RecordSM)", "C13": "Refine", "C14": "NrpsModules", "C15": "Orfs", "C16": "RecordIds", "C17": "Determinism",
        "C18": "Pool", "C19": "Layout", "C20": "SafeWrite"}
for check in man["checks"]:
    pid = check["property_id"]
    path = os.path.join(HERE, "evidence", f"{pid}.json")
    if not os.path.exists(path):
        print(f"| {pid} | {mods.get(pid, '')} | - | - | - | no evidence yet |")
        continue
    ev = json.load(open(path))
    cov = ev["coverage"]
    known = ", ".join(f"{k} ({v})" for k, v in cov.get("known_findings_hit", {}).items()) or "-"
    print(f"| {pid} | {mods.get(pid, '')} | {cov['states']:,} | {cov['traces_validated_against_impl']:,} | {known} | {ev['tier']} / {ev['wall_s']:.0f} s |")
