#!/venv/bin/python
""" Builds known_findings.d/C13.json + known_findings/<entry>.cases.ndjson from reviewed `--propose-findings` runs.
    (manual tool; the check itself never writes findings)

    usage: tools/c13_findings.py <dir>
    <dir> holds the stdout of `./check C13 --tier <quick|thorough> --propose-findings` for several trees
    (C13_FAMILIES=refine restricts a run to the refinement call sites):
        HEAD_<tier>.ndjson    the current tree (all call sites)
        A_<tier>.ndjson       the tree with all proposed_fixes/C13_*.diff applied (refinement call sites suffice)
        F24_<tier>.ndjson     HEAD + C13_merge_spans_both_fragments.diff only            (optional, refinement)
        F26_<tier>.ndjson     HEAD + C13_merge_domain_list_keeps_every_domain.diff only  (optional, refinement)
    e.g. C13_FAMILIES=refine tools/with_mutant.sh proposed_fixes/C13_merge_spans_both_fragments.diff \
             ./check C13 --tier quick --propose-findings > F24_quick.ndjson

    Attribution of a failing key (call site, clause, abstract input) of the refinement call sites:
      - fails on the fully patched tree                          -> the permanent finding (P14)
      - otherwise: every fixable entry whose fix alone cures it   (both if neither alone does)
    so that the check stays quiet on the current tree, on the fully patched tree (fix entries removed) and on the
    trees with a single fix applied (that fix's entry removed).  The other call sites have one fix each: all their
    failing keys go to the entries of that fix.
"""
import glob
import json
import os
import sys

VERIF = os.path.dirname(os.path.dirname(os.path.abspath(__file__)))

FIXABLE = {"F24": "P24-merge-shrinks-hit", "F26": "C13-N1-default-mode-keeps-last-domain-only"}

ENTRIES = {
    "P24-merge-shrinks-hit": {
        "ops": ["refine", "refine_neighbour"], "class": ["same_profile_nested_fragment"],
        "what": "HMMResult.merge takes the other fragment's end: merging a nested (or equal-start) fragment shrinks "
                "the hit, the merge does not span its fragments (fix: proposed_fixes/C13_merge_spans_both_fragments.diff)",
        "witness": "refine_hmmscan_results([QR([HSP('g','a',29,51,...), HSP('g','a',34,40,...)])], {'a': 60}) -> {} "
                   "(merged to a[29,40), then dropped as incomplete); expected [a[29,51)]"},
    "C13-N1-default-mode-keeps-last-domain-only": {
        "ops": ["refine"], "class": ["same_profile_pair_too_far_to_merge"],
        "what": "_merge_domain_list forgets the merge built so far when the next fragment of the profile is too far "
                "away: in default mode only the last domain of each profile survives "
                "(fix: proposed_fixes/C13_merge_domain_list_keeps_every_domain.diff)",
        "witness": "refine_hmmscan_results([QR([HSP('g','a',0,3,bitscore=2.), HSP('g','a',8,11,bitscore=1.)])], {'a': 4}) "
                   "-> [a[8,11)]; expected both hits (neighbour_mode=True returns both)"},
    "P14-replacer-itself-dropped-chain": {
        "ops": ["refine", "refine_neighbour"], "class": ["domain_overlaps_two_others"],
        "clauses": ["dropped_hit_justified", "no_overlap_beyond_margin"],
        "what": "_remove_overlapping compares with the last kept hit only: a hit replaced by a better overlapping hit "
                "stays dropped when that replacer is itself replaced/dropped later (A<B<C keeps only C although A and C "
                "are disjoint); no small safe fix (needs a ranked, non-greedy pass)",
        "witness": "refine_hmmscan_results([QR([HSP('g','a',0,5,bitscore=1.), HSP('g','b',3,8,bitscore=2.), "
                   "HSP('g','a',6,11,bitscore=3.)])], {'a': 4, 'b': 8}, neighbour_mode=True) -> [a[6,11)]; expected "
                   "a[0,5) to survive as well"},
    "P14-replacer-itself-dropped-incomplete": {
        "ops": ["refine", "refine_neighbour"], "class": ["incomplete_hit_overlaps_a_domain"],
        "clauses": ["dropped_hit_justified", "no_overlap_beyond_margin"],
        "what": "overlap removal runs before remove_incomplete: a short higher (or equal, earlier) scoring fragment "
                "removes a complete overlapping domain and is then itself removed as incomplete; no small safe fix",
        "witness": "refine_hmmscan_results([QR([HSP('g','a',4,5,bitscore=3.), HSP('g','b',3,8,bitscore=2.)])], "
                   "{'a': 4, 'b': 8}, neighbour_mode=True) -> {}; expected [b[3,8)]"},
    "C13-N2-remove-overlapping-returns-first-hit-twice": {
        "ops": ["remove_overlapping"], "class": ["a_leftmost_hit_shorter_than_limit"],
        "what": "hmmer.remove_overlapping puts the first hit into two groups when it is shorter than overlap_limit: the "
                "hit is returned twice, and with equal starts the grouping depends on the input order "
                "(fix: proposed_fixes/C13_remove_overlapping_first_hit_once.diff)",
        "witness": "remove_overlapping([HmmerHit a[2,4), HmmerHit a[5,9)], {'a': 1.0}, overlap_limit=3) -> "
                   "[a[2,4), a[2,4), a[5,9)]; expected each hit once"},
    "C13-N3-filter-results-outsiders-compete": {
        "ops": ["filter_results"], "class": ["outsider_overlaps_on_competing_gene"],
        "what": "filter_results compares all hits of a gene once two profiles of an equivalence group are present: "
                "profiles outside the group are removed by / remove group members "
                "(fix: proposed_fixes/C13_filter_results_group_members_only.diff)",
        "witness": "filter_results(hsps, {'g': hsps}, [{'p','q'}]) with p[0,50)=3, q[100,150)=2, r[20,60)=1 -> r removed; "
                   "expected all three kept"},
    "C13-N5-filter-results-tie-by-set-order": {
        "ops": ["filter_results"], "class": ["tied_best_scores_in_overlap_group"],
        "what": "filter_results starts from list(set)[0] and replaces only on a strictly higher score: equal scores are "
                "decided by set iteration order (fix: proposed_fixes/C13_filter_results_group_members_only.diff)",
        "witness": "filter_results(hsps, {'g': hsps}, [{'p','q'}]) with p[29,80)=1, q[0,50)=1 keeps p in one call and q in the next "
                   "(iteration order of a set of HSP objects, i.e. their addresses); expected one result"},
    "C13-N6-filter-result-multiple-tie-by-input-order": {
        "ops": ["filter_result_multiple"], "class": ["tied_best_scores_same_profile_same_gene"],
        "what": "filter_result_multiple keeps the first hit with the highest score: with equal scores the survivor "
                "depends on the order of the hit list (fix: proposed_fixes/C13_filter_result_multiple_tie_break.diff)",
        "witness": "filter_result_multiple([p[0,50)=2, p[60,90)=2], ...) keeps p[0,50); the reversed list keeps p[60,90); "
                   "expected one result"},
}


def load(path):
    rows = {}
    if not os.path.exists(path):
        return None
    with open(path, encoding="utf-8") as handle:
        for line in handle:
            if line.startswith("{"):
                row = json.loads(line)
                rows[row["key"]] = row
    return rows


def p14_entry(row):
    if "incomplete_hit_overlaps_a_domain" in row["features"]:
        return "P14-replacer-itself-dropped-incomplete"
    return "P14-replacer-itself-dropped-chain"


def compete_entry(row):
    feats = row["features"]
    if row["op"] == "filter_result_multiple":
        return "C13-N6-filter-result-multiple-tie-by-input-order"
    if "outsider_overlaps_on_competing_gene" in feats:
        return "C13-N3-filter-results-outsiders-compete"
    return "C13-N5-filter-results-tie-by-set-order"


def main(directory):
    assigned = {name: {} for name in ENTRIES}   # entry -> key -> row
    for tier in ("quick", "thorough"):
        trees = {name: load(os.path.join(directory, f"{name}_{tier}.ndjson")) for name in ("HEAD", "A", "F24", "F26")}
        if trees["HEAD"] is None:
            continue
        patched = trees["A"] or {}
        every = {}
        for rows in trees.values():
            every.update(rows or {})
        for key, row in sorted(every.items()):
            if row["op"] in ("refine", "refine_neighbour"):
                if key in patched:
                    assigned[p14_entry(row)][key] = row
                    continue
                cured = [FIXABLE[name] for name in FIXABLE if trees[name] is not None and key not in trees[name]]
                singles = [name for name in FIXABLE if trees[name] is not None]
                if not singles:     # no single-fix runs for this tier: attribute by clause / mode
                    if row["clause"] == "output_is_input_or_merge":
                        cured = [FIXABLE["F24"]]
                    elif row["op"] == "refine" and "same_profile_pair_too_far_to_merge" in row["features"]:
                        cured = [FIXABLE["F26"]]
                for name in cured or FIXABLE.values():
                    assigned[name][key] = row
            elif row["op"] == "remove_overlapping":
                assigned["C13-N2-remove-overlapping-returns-first-hit-twice"][key] = row
            else:
                assigned[compete_entry(row)][key] = row
    findings = []
    for name, meta in ENTRIES.items():
        rows = assigned[name]
        cases_file = f"known_findings/{name}.cases.ndjson"
        with open(os.path.join(VERIF, cases_file), "w", encoding="utf-8") as handle:
            for key in sorted(rows):
                handle.write(json.dumps({"key": key}) + "\n")
        ops = sorted(set(meta["ops"]) | {row["op"] for row in rows.values()})
        clauses = sorted({row["clause"] for row in rows.values()} | set(meta.get("clauses", [])))
        findings.append({"id": name, "properties": ["C13"], "ops": ops, "clauses": clauses, "what": meta["what"],
                         "witness": meta["witness"], "cases_file": cases_file, "class": meta["class"]})
        print(f"{name}: {len(rows)} cases, clauses {clauses}")
    with open(os.path.join(VERIF, "known_findings.d", "C13.json"), "w", encoding="utf-8") as handle:
        json.dump({"findings": findings}, handle, indent=1)
        handle.write("\n")


if __name__ == "__main__":
    main(sys.argv[1])
