#!/venv/bin/python
""" Runs the repository's baseline suite (guard off) and compares with /root/.vp/BASELINE.json stable_pass.
    usage: tools/baseline.py [repo_dir] [-n N]   exit 0 iff every stable_pass test passed. """
import json, os, subprocess, sys, tempfile, xml.etree.ElementTree as ET
repo = sys.argv[1] if len(sys.argv) > 1 and not sys.argv[1].startswith("-") else "/repo"
extra = []
if "-n" in sys.argv:
    extra = ["-n", sys.argv[sys.argv.index("-n") + 1]]
base = json.load(open("/root/.vp/BASELINE.json"))
want = set(base["stable_pass"])
fd, path = tempfile.mkstemp(suffix=".xml"); os.close(fd)
env = dict(os.environ); env.pop("ANTISMASH_VERIF", None)
subprocess.run(["/venv/bin/python", "-m", "pytest", "-ra", "-q", "-p", "no:cacheprovider", "--timeout=900",
                "--continue-on-collection-errors", f"--junitxml={path}"] + extra, cwd=repo, env=env,
               stdout=subprocess.DEVNULL, stderr=subprocess.DEVNULL, check=False)
passed = set()
for case in ET.parse(path).getroot().iter("testcase"):
    if not any(child.tag in ("failure", "error", "skipped") for child in case):
        passed.add(f"{case.get('classname')}::{case.get('name')}")
os.unlink(path)
missing = sorted(want - passed)
print(f"baseline: {len(want & passed)}/{len(want)} stable tests pass; {len(passed)} passed in total")
for name in missing[:40]:
    print("  NOT PASSING:", name)
sys.exit(1 if missing else 0)
