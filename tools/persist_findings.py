#!/venv/bin/python
""" Manual helper for the C10 / C12 finding lists (never run by a check).

    usage: tools/persist_findings.py C10|C12 <propose-findings ndjson> [<more ndjson> ...] [--write]

    Reads the output of `./check Cnn --tier quick|thorough --propose-findings`, recomputes the feature literals of every
    failing input, assigns every (op, clause, input) to each entry of known_findings.d/Cnn.json whose ops / clauses / class
    match, reports failures that no entry explains, and with --write rewrites the entries' cases files
    (known_findings/<entry>.cases.ndjson, one {"key": ...} per enumerated failing input, with op / clause / features
    for the reviewer).
"""
import json
import os
import sys

HERE = os.path.dirname(os.path.dirname(os.path.abspath(__file__)))
sys.path.insert(0, HERE)

from harness.findings import case_key  # noqa: E402


def main() -> int:
    args = [a for a in sys.argv[1:] if a != "--write"]
    write = "--write" in sys.argv
    prop, files = args[0].upper(), args[1:]
    with open(os.path.join(HERE, "known_findings.d", f"{prop}.json"), encoding="utf-8") as handle:
        entries = json.load(handle)["findings"]
    rows = {}
    for path in files:
        with open(path, encoding="utf-8") as handle:
            for line in handle:
                if line.startswith("{"):
                    row = json.loads(line)
                    rows[(row["key"], row["op"], row["clause"])] = row
    assigned = {entry["id"]: {} for entry in entries}
    unexplained = []
    from harness import persist  # pylint: disable=import-outside-toplevel
    for row in rows.values():
        # literals of the abstract input are recomputed (the vocabulary may have grown since the run); literals of the
        # region (C12) are taken from the run
        row["features"] = sorted(set(row["features"]) | set(persist.features(row["input"]["uni"], row["input"]["hist"])))
        failure = {"op": row["op"], "clause": row["clause"], "input": row["input"]}
        assert case_key(failure) == row["key"]
        sampled = row["input"].get("seed", 0) != 0   # enumerated cases use the fixed sequence seed 0
        hit = False
        for entry in entries:
            if row["op"] not in entry["ops"]:
                continue
            if not any(row["clause"] == c or row["clause"].startswith(c + ":") for c in entry["clauses"]):
                continue
            if not set(entry["class"]) <= set(row["features"]):
                continue
            hit = True
            if not sampled:
                assigned[entry["id"]][row["key"]] = row
        if not hit:
            unexplained.append(row)
    for entry in entries:
        print(f"{entry['id']}: {len(assigned[entry['id']])} cases")
        if write:
            path = os.path.join(HERE, entry["cases_file"])
            with open(path, "w", encoding="utf-8") as handle:
                for key in sorted(assigned[entry["id"]]):
                    row = assigned[entry["id"]][key]
                    handle.write(json.dumps({"key": key, "op": row["op"], "clause": row["clause"],
                                             "features": [f for f in row["features"] if f in entry["class"]]}, sort_keys=True) + "\n")
    print(f"unexplained failures: {len(unexplained)}")
    seen = set()
    for row in unexplained:
        sig = (row["op"], row["clause"], tuple(row["features"]))
        if sig not in seen and len(seen) < 25:
            seen.add(sig)
            print("  ", row["op"], row["clause"], row["features"])
    return 1 if unexplained else 0


if __name__ == "__main__":
    sys.exit(main())
