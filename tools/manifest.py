#!/venv/bin/python
""" Regenerates /verif/MANIFEST.json from the table below (single source of truth for the interface). """
import json, os, sys
HERE = os.path.dirname(os.path.dirname(os.path.abspath(__file__)))
props = [json.loads(line) for line in open(os.path.join(HERE, "properties.jsonl"))]

TRUSTED = ("Trusted base: TLC 1.8 and SANY; the harness's materialisers/projections (harness/build.py, project.py and the "
           "adapter); the bounded universes named in the evidence. The python side holds no oracle: every verdict is "
           "computed by TLC from the spec. ")

CHECKS = {
 "C01": dict(
    text=("RuleAst.tla transcribes the documented meaning of rule conditions (Eval, Reasons, Anchors) from the rule "
          "language documentation; TLC checks the oracle against itself (negation, reasons subset, rotation invariance) "
          "and shows that the leaky-minscore variant differs (negative control); every TLC-enumerated condition tree on "
          "every TLC-enumerated gene layout (inside / at / outside the cutoff, across the origin) with seeded hit tables, "
          "plus random deeper trees, is parsed by the real Parser and evaluated by DetectionRule.detect on every gene; "
          "RuleAst_Trace (TLC) decides met/anchoring/reasons for each."
          " The same question is also put the way the pipeline puts it: apply_cluster_rules on a real record, with the neighbours that function gathers for the rule's cutoff; the answers the rule gives there are judged by the same clauses."),
    design="6/C01", technique="TLA+ spec (RuleAst.tla) + TLC model checking + TLC trace validation of DetectionRule.detect",
    note=TRUSTED + "Trees up to 3 operands exhaustively over the catalogue, depth <= 4 sampled; integer bitscores."),
 "C04": dict(
    text=("Ring.tla states the set-of-bases reading of the location algebra; TLC checks the oracle against itself on all "
          "ordered pairs of the location universe (symmetry, dist/overlap coherence, rotation invariance, satisfiability "
          "of the connect/extend/shift relations) and then decides, in Ring_Trace, the observed result of every public "
          "location function on every location, offset, distance, ordered pair and span triple of that universe "
          "(rings and lines of 6-7 bases quick, 5-9 thorough) plus seeded random inputs on longer records."),
    design="6/C04", technique="TLA+ spec (Ring.tla) + TLC model checking + TLC trace validation of real calls",
    note=TRUSTED + "Exhaustive only up to the stated record lengths; fuzzy positions outside the model."),

 "C08": dict(
    text=("Genes.tla states lookup membership as set-of-bases containment / overlap and location order as a relation; TLC "
          "checks the oracle's meta-properties (rotation freedom, a sorted result satisfies the relation) and, as a negative "
          "control, that the bisect-and-early-exit shape misses shadowed genes; every layout of up to 3 genes over all simple and "
          "origin-spanning arcs of small records (4 genes and longer records sampled), in random insertion orders, is queried "
          "with every arc with and without with_overlapping through Record.get_cds_features_within_location and Genes_Trace "
          "(TLC) decides every result. Area membership / build-order independence is decided by the RecordSM machinery (C06)."),
    design="6/C08", technique="TLA+ spec (Genes.tla) + TLC model checking + TLC trace validation of real lookups",
    note=TRUSTED + "Exhaustive for <= 3 genes on records of 6 (quick) / 7 (thorough) bases, sampled beyond."),
 "C03": dict(
    text=("Detect.tla states protocluster formation declaratively on top of RuleAst/Ring: anchors, maximal cutoff-chains, core = "
          "connect-relation of the chain (plus reachable EXTENDERS genes), extent = extend-relation, SUPERIORS as a must/must-not "
          "sandwich, suppliers sandwich; TLC checks that a constructive reference satisfies the relation, that anchors partition "
          "into chains, and order/rotation freedom of the oracle; rulesets of 1-3 TLC-enumerated rules x layouts of 2-4 "
          "TLC-enumerated gene locations x hit tables (plus larger random records) run through the real "
          "detect_protoclusters_and_signatures with dynamic profiles, at two scales; Detect_Trace (TLC) decides every result."),
    design="6/C03", technique="TLA+ spec (Detect.tla) + TLC model checking + TLC trace validation of the detection pipeline",
    note=TRUSTED + "Layouts/rulesets are seeded samples over TLC-enumerated catalogues (not exhaustive); hits enter as data."),
 "C07": dict(
    text=("Metamorphic action properties on Detect.tla: TLC checks on the model that rotating the origin (Ring!Shift of every "
          "gene) and permuting the rules changes neither anchors, chains nor reference protoclusters; the real pipeline "
          "(detection, candidate clusters, regions) is run on a circular record, on the same record re-indexed at 4 (quick) / all "
          "(thorough) other origins, and with every permutation / sub-selection of the ruleset; Detect_Trace (TLC, op meta) rotates "
          "the scene itself and decides equality of the gene-level views (protocluster core/extent members, candidate and region "
          "members) whenever every region spans less than half the record, and independence from other rules up to removed "
          "superiors."),
    design="6/C07", technique="TLA+ action properties (Detect.tla, Ring!Shift) + TLC + differential trace validation of the pipeline",
    note=TRUSTED + "Seeded samples of rulesets/layouts over TLC-enumerated catalogues; the rotated record is built from scratch by "
         "the harness with the spec's Shift (python twin in props/c07.py rotate_loc)."),
 "C05": dict(
    text=("Candidates.tla states the documented grouping (chemical hybrids by shared defining genes plus contained cores, "
          "interleaved by overlapping cores, neighbouring by overlapping extents, singles) as a relation over the reported "
          "candidates, with explicit sandwiches for coordinate coincidences and half-ring groups; TLC checks the grouping "
          "against itself (disjointness, reference satisfies relation, renaming freedom) and enumerates all protocluster "
          "shapes on a line and ring of 12; arrangements of 2-4 shapes with shared / own defining genes run through "
          "Record.create_candidate_clusters() in every order of adding the protoclusters; Candidates_Trace (TLC) decides "
          "membership, locations, kinds, duplicates and order independence."),
    design="6/C05", technique="TLA+ spec (Candidates.tla) + TLC model checking + TLC trace validation of candidate formation",
    note=TRUSTED + "Pairs exhaustive in thorough (sampled in quick), triples/quadruples sampled; defining genes are "
         "single-base genes at core starts."),
 "C20": dict(
    text=("SafeWrite.tla models the results writers as convert(i,j)*, dumps, open(truncate), write with a fault planted at any "
          "conversion point (to_json call or inside the final dumps; TypeError / other exception / unserialisable value / invalid "
          "result type / top-level field) and states FailedImpliesOld (failed => bytes old and reported) and Success => new; TLC "
          "checks them for every configuration under the documented order and under the order-free relation used for trace "
          "validation, with two negative controls (open-before-convert, swallowed failure) that must violate. Every configuration "
          "(0..3 records x 0..3 modules quick, 0..4 thorough, both writers) is executed against the real write_to_file / "
          "dump_records with stub module results and a wrapped builtins.open; TLC replays the logged Convert/Ser/Open/Write events "
          "through the spec's actions and decides the state of the target's bytes. Directory guard: all 392 configurations of "
          "pre-existing contents x fresh/reuse run through the real prepare_output_directory; TLC decides refuse/accept against a "
          "must-refuse / must-accept sandwich and that a refusal leaves the recursive listing untouched."
          ' The directory guard is also met through the command line entry point with the default output directory, and the writer through run_antismash in reuse mode.'),
    design="6/C20", technique="TLA+ spec (SafeWrite.tla) + TLC model checking with negative controls + TLC trace validation (event replay) of fault-injected real calls",
    note=TRUSTED + "Open/Write are seen through builtins.open/io.open only. Dot-files as only foreign contents (P16), an absent "
         "directory and reuse from a json outside the directory are unspecified by design. Each run also ships corrupted events "
         "that TLC must reject."),
 "C18": dict(
    text=("Pool.tla models parallel_function as multiprocessing.Pool.starmap_async does it (chunk = ceil(n/(4*cpus)), FIFO chunks, "
          "workers, collector by index, ready only when all chunks reported, timeout, cpus = 1 shortcut) with task outcomes "
          "ok/raises/hangs; TLC explores every interleaving (n <= 4, cpus <= 3, all outcome vectors; n = 9 with chunks of two quick; "
          "n <= 5, cpus <= 4, n in {9,10} thorough) and checks ResultsInArgumentOrder, FailureSurfaces, TimeoutSurfaces, "
          "NeverShorter, termination, plus two negative controls. Every finished model state is a completion order that is forced "
          "on the real parallel_function through barrier files; what the caller got is decided by TLC in Pool_Trace. Worker counts "
          "1..16 with batches below/at/above the pool size, parallel_execute with shell commands behind the same barriers, and 84 "
          "TLC-enumerated record contents (origin-spanning genes/regions, sectioned CDS tuples) through the pool, pickle, "
          "sanitise_sequence and ensure_cds_info are validated by the same trace spec."
          ' The whole pre-processing step is run as a transport as well: with a stub gene finder, with a gene finder refusing one record (the error must surface, no hang), and with the shipped gene finding module over a stand-in prodigal binary (one worker against k workers).'),
    design="6/C18", technique="TLA+ spec (Pool.tla) + TLC model checking of all completion orders + forced-schedule replay on the real pool + TLC trace validation",
    note=TRUSTED + "Hanging schedules and the chunked configuration are seeded samples of the TLC schedules. With cpus = 1 the "
         "timeout is ignored as documented. Gene finding is a stub (no prodigal). A schedule that cannot be enforced within 30 s is "
         "exit 2 (machinery), never a violation."),
 "C06": dict(
    text=("RecordSM.tla models the Record as a state machine (add gene / protocluster / subregion, create candidates / regions, "
          "clear regions / subregions / candidates / protoclusters; candidates through Candidates.tla; regions as connected "
          "components of 'areas overlap' with the connect-relation as span and an explicit sandwich for components needing half "
          "the ring). TLC explores every history of <= 4 (quick) / 6 (thorough) calls over three universes and checks the region "
          "invariants, absence of stale links and clear+recreate = create on the model; every model state is a behaviour that is "
          "replayed on a real Record, and RecordSM_Trace (TLC) decides the last transition and the observed record: numbering 1..n "
          "in location order with numbers identifying the same feature, area membership (C08 build-order half), gene -> region, "
          "parent links. Plus seeded random universes with longer call sequences (every step validated) and thousands of random "
          "region layouts on small rings."),
    design="6/C06", technique="TLA+ state machine (RecordSM.tla) + TLC model checking of all short histories + behaviour replay and TLC trace validation",
    note=TRUSTED + "create_* are only called when no candidates/regions exist (documented use). Region invariants are required where "
         "regions were just (re)built."),
 "C17": dict(
    text=("Determinism.tla makes the interpreter's set/dict iteration order the schedule: a stage is a function of (input set, "
          "iteration order) and must not reveal the order; TLC explores every input set of up to 4 (quick) / 5 (thorough) items and "
          "every pair of iteration orders and establishes when the stage shapes of the pipeline are order-free (total sort key: "
          "always; partial key: iff no tie; list(set): never), with the partial-key sort as negative control. Tie-rich inputs (3-5 "
          "profiles per gene, equal scores, equal starts, equal coordinates) are pushed through the real stages - hit refinement, "
          "rule detection and its results JSON, gene annotation, candidate clusters, regions and numbering, record JSON and GenBank "
          "text - in 6 (quick) / 32 (thorough) child interpreters with different PYTHONHASHSEED and heap noise; Determinism_Trace "
          "(TLC) requires equal digests of every stage across all interpreters."),
    design="6/C17", technique="TLA+ spec (Determinism.tla, iteration order as schedule) + TLC + differential runs in child interpreters validated by TLC",
    note=TRUSTED + "Stage-level dumps, not the full command line (needs HMMER/prodigal); address-dependent orders are sampled "
         "through heap noise; non-vacuity = inputs on which at least two iteration orders were observed."),
 "C15": dict(
    text=("Orfs.tla (on Ring.tla) defines the ORFs of a nucleotide string declaratively (first start after the previous in-frame "
          "stop ... stop inclusive, minimum-length sandwich), their coordinates on a line or ring for either strand / offset / "
          "record length incl. wrapping and the whole-record case, extraction in Biopython's transcription order, the translation, "
          "and the gap-search relations. TLC checks the definition against a sweep-shaped model and the mapping/extraction "
          "operators against each other on every A/T/G string <= 8 (10) bases and every concatenation of <= 5 (6) codon tokens, with "
          "negative controls, and then decides in Orfs_Trace every observed result of scan_orfs (both strands, 11 window placements, "
          "minimum lengths around the ORF lengths, plus what Biopython extracts through each reported location), "
          "find_intergenic_areas (all layouts of <= 2 genes on 8 bases + random) and find_all_orfs on real records with genes and areas."),
    design="6/C15", technique="TLA+ spec (Orfs.tla) + TLC model checking + TLC trace validation of real calls",
    note=TRUSTED + "Exhaustive up to the stated string lengths; longer strings, C/N/R/Y/lower case and the find_all_orfs records are "
         "seeded samples. Minimum length is a sandwich (> min must, < min must not, = min either). Gap search is soundness only "
         "(completeness only without genes)."),
 "C16": dict(
    text=("RecordIds.tla states the post-condition of identifier sanitisation (pairwise distinct, no illegal character, <= 16 unless "
          "long headers allowed, changed => original remembered, refusal only for an id without usable character; gene ids unique "
          "or the record refused) and an implementation-shaped pipeline (de-duplicate -> shorten -> strip with a shared taken set). "
          "TLC shows on every list of <= 3 ids from a pool of 19 (33), both settings, that the repaired pipeline satisfies the "
          "post-condition and that the original pipeline shape violates it (negative controls), then decides in RecordIds_Trace the "
          "observed ids/names/original ids of the real pre_process_sequences on every such list plus seeded random lists, and direct "
          "calls of fix_record_name_id, generate_unique_id and Record.add_cds_feature."
          " What the outputs say is looked at too: the original identifier in the results file as a reuse run reads it (main.read_data) and in the antiSMASH-Data comment of each record's GenBank output."),
    design="6/C16", technique="TLA+ spec (RecordIds.tla) + TLC model checking + TLC trace validation of real calls",
    note=TRUSTED + "Exhaustive for lists <= 3 from the pool; random lists are samples. Ids reach the code as in-memory secmet Records; "
         "1 cpu, in-process (the parallel path is C18's). Names are checked for characters/length, not uniqueness."),
 "C09": dict(
    text=("Translate.tla states, on top of Ring.tla, which record positions encode residues [s,e) of a gene (strand, exon structure, "
          "origin split, codon_start); TLC checks the constructive sub-location against the statement's relations on every "
          "enumerated gene x protein range (runs inside exons, ordered, right size, tiling by leader/core/tail, relations refuse "
          "neighbouring locations), refutes two implementation-shaped designs as negative controls, and then decides in "
          "Translate_Trace the locations returned by Feature.get_sub_location_from_protein_coordinates, "
          "convert_protein_position_to_dna, Prepeptide.to_biopython (leader/core/tail), hmmer.build_hits, "
          "generate_domain_features/generate_motif_features and TTAResults.new_feature_from_other, plus codon_start application/undo "
          "and the real extract+translate comparison, for every gene and range of the universe (records of 12 bases quick, 12-18 "
          "thorough) and for seeded random genes on longer records."
          ' The TTA scan itself (tta.detect) is run on genes in one piece with planted TTA codons: exactly those codons are marked.'),
    design="6/C09", technique="TLA+ spec (Translate.tla on Ring.tla) + TLC model checking with negative controls + TLC trace validation of real calls",
    note=TRUSTED + "Exons of one gene disjoint; fuzzy positions outside the model; the genetic code enters only through the observed "
         "extract+translate boolean; build_hits driven by fake search results. Two known findings remain (reverse-strand origin-spanning "
         "genes listed in ascending part order; TTA marker on multi-exon genes)."),
 "C02": dict(
    text=("RuleGrammar.tla holds a reference tokeniser and recursive-descent parser transcribed from the documented grammar (not > "
          "and > or, groups, cds, minimum, minscore, section order, DEFINE as textual substitution, 27 error classes) and the parser "
          "state machine (aliases, rules, files that extend the state or fail as a whole; kb*1000*multiplier; transitive SUPERIORS). "
          "TLC checks on the model that every parenthesisation style of every generated tree reads back as that tree, that alias use "
          "equals inlining, that constructed multi-file states are what Denote yields, that constructive corruptions are ill-formed "
          "and that tokenisation is independent of separators/comments; its states (13 k quick, 300 k thorough: trees x styles x "
          "separators, superiors chains over 1-3 files x multipliers, alias cases, optional sections, every constructive "
          "ill-formedness class and every single-token delete/duplicate/swap/replace/insert/truncate edit of base texts) are parsed "
          "by Parser / create_rules / Ruleset.from_files. RuleGrammar_Trace re-runs Denote on the logged tokens to decide each result, "
          "the round trip through reconstruct_rule_text, and, statefully, every item of the shipped strict/relaxed/loose rule files "
          "plus get_ruleset's scaling."),
    design="6/C02", technique="TLA+ spec (RuleGrammar.tla) + TLC model checking (generator, round-trip/meta invariants, negative control) + TLC trace validation of real parses incl. a stateful trace of the shipped rule files",
    note=TRUSTED + "Closed vocabulary (6 profiles, ASCII), fixed DESCRIPTION/EXAMPLE payloads, exact binary multipliers. Five documented "
         "either-way bands where the documentation is silent. Depth-3 trees are sampled. One known finding remains (P22: unknown "
         "profile names inside EXTENDERS are accepted; the two-line repair breaks a test of the repository)."),
 "C11": dict(
    text=("Reuse.tla models every module's results as a state machine (absent/fresh/saved; Run, Save, Regenerate, ChangeOption) and "
          "classifies each recorded setting as hard (rule set, fungal multipliers, thresholds, schema version, record id), soft "
          "(strictness with unchanged rule set) or free (not recorded). TLC explores every history of <= 5 (quick) / <= 7 (thorough) "
          "actions for 7 kinds of results with every outcome the spec allows: results in use are never stale, same settings reproduce "
          "JSON and effects, conversions equal a fresh run; a label-comparing implementation refines the spec; modules ignoring "
          "multipliers, schema or threshold violate NeverReinterpreted / StaleDropped (negative controls). Every history is replayed "
          "on real results objects of hmm_detection (real regenerate_previous_results and rule sets), sideloader, nrps_pks_domains, "
          "cluster_hmmer/full_hmmer, tta, pfam2go and t2pks exactly as main.run_module does, in interpreters with fixed hash seeds; "
          "Reuse_Trace (TLC) judges every regeneration from digests of the JSON texts and record projections. Plus seeded content "
          "sweeps (two save/regenerate cycles) and random histories of 6-14 actions."),
    design="6/C11", technique="TLA+ spec (Reuse.tla) + TLC model checking (all histories, implementation-shaped refinement, 3 negative controls) + TLC trace validation of behaviour replays on real results objects",
    note=TRUSTED + "Histories are exhaustive to the stated depth; the results objects are seeded samples. External binaries are replaced "
         "by hit tables. A schema change is materialised by shifting the saved schema field(s). Sandwiches: a strictness-only change "
         "may reuse unchanged; sideload arguments are free; HmmerResults.refilter trim band."),
 "C14": dict(
    text=("NrpsModules.tla states the documented NRPS/PKS module rules (partition in order, layout WellLaid incl. trans-AT KR and "
          "double-transporter exceptions, completeness and trans-AT as must/may bands, flag definitions, no needless split, the merge "
          "relation, reload identity) plus a look-ahead state machine; TLC checks on every enumerated domain string and gene pair that "
          "the state machine's own output satisfies the rules (with wrong-model negative controls), and then decides in "
          "NrpsModules_Trace the projected result of build_modules_for_cds, Module.from_json(to_json()) and combine_modules (strand "
          "combinations) for every such string/pair (all strings <= 3 over 25 labels + pairs quick; <= 4 over 25, <= 5 over 14, <= 7 "
          "over the 5 double-transporter labels, pairs <= 3 x <= 3 thorough) plus seeded random genes of 6-14 domains over all profile "
          "names."),
    design="6/C14", technique="TLA+ spec (NrpsModules.tla) + TLC model checking (generator, satisfiability, negative controls) + TLC trace validation of real calls",
    note=TRUSTED + "Domain classes are taken from the code's classify(); exhaustive only up to the stated lengths/alphabets; "
         "generate_domains (needs hmmscan), monomer naming and the secmet aSModule GenBank round trip are outside."),
 "C19": dict(
    text=("Layout.tla states the region-overview layout data as a relation over sets of drawing coordinates (every "
          "protocluster/subregion drawn exactly once or as two linked halves split at the origin; candidates by the documented "
          "sandwich; same-row areas disjoint in their extents; cores inside extents and equal to the protocluster's core; announced "
          "range = region, continued past L over the origin; every extent and gene inside it; drawing order = genome order) with a "
          "constructive sorted first-fit reference. TLC (Layout_MC) enumerates small lines/rings with 0-2 protoclusters (independent "
          "left/right neighbourhoods), 0-1 subregion and genes incl. over the origin, forms candidates/regions with the "
          "Candidates/RecordSM model, shows the relation satisfiable and the reference row-optimal on every region, shows a repaired "
          "implementation-shaped model of adjust_cross_origin_area satisfying it, and four negative controls violating it. Every "
          "enumerated record plus seeded random records of 30-150 bases is built as a real Record; build_area_rows and "
          "js.convert_regions are called for every region and Layout_Trace (TLC) decides each observed layout."),
    design="6/C19", technique="TLA+ relation + constructive reference + implementation-shaped companion (TLC model checking), enumerated-universe replay and random records with TLC trace validation",
    note=TRUSTED + "The announced start may be 0- or 1-based; row count is free (only non-overlap is required); region kinds reached "
         "are enforced per run (exit 2 if one is missing)."),
 "C13": dict(
    text=("Refine.tla states what refinement of profile hits must satisfy: sorted by position; no two kept hits overlapping beyond "
          "the documented 20% margin; every output an input hit or the spanning best-score merge of same-profile fragments within 1.5 "
          "profile lengths; every dropped hit justified by a kept not-lower-scoring overlapping hit, absorption into a kept merge, or "
          "incompleteness with the documented fallbacks. It also states the documented ranking of hmmer.remove_overlapping and the "
          "competition between equivalent profiles (filter_results, filter_result_multiple). TLC (Refine_MC) enumerates all sets of "
          "<= 3 (thorough <= 4) hits over tie-rich universes for the three call sites, shows the relations satisfiable by constructive "
          "references, shows the repaired implementation-shaped greedy model order-free, and exhibits the set-order, chained-replacement, "
          "shrinking-merge and last-domain-only defects on the unrepaired shape as negative controls. Every enumerated input plus seeded "
          "random larger ones is replayed into the real functions for every permutation of the input list, in child interpreters under "
          "fixed PYTHONHASHSEED values and with scheduled object hashes. TLC (Refine_Trace) decides every distinct result against the "
          "relations, and order independence as equality of all results of one input."),
    design="6/C13", technique="TLA+ spec (Refine.tla) + TLC model checking with negative controls + TLC trace validation of real calls under permutations / hash seeds",
    note=TRUSTED + "Sandwiches: a score tie justifies either choice; for equal starts 'overlap' between two kept hits is demanded only "
         "under every reading; results are compared as bags. Not covered: the HMMER search, filter_nonterminal_docking_domains. One "
         "known finding remains (P14: a hit whose replacer is itself dropped; needs a non-greedy pass)."),
 "C10": dict(
    text=("Persist.tla (over RecordSM) states the abstract record (sequence, topology, every feature [type, location, payload], "
          "numbered areas with resolved cross references). A GenBank / JSON / results-file round trip is a stuttering step on it, and "
          "the first output is a fixed point. Persist_MC's pipeline-ordered RecordSM states over three universes are built as real "
          "records from a parsed GenBank skeleton through the secmet API with a fixed payload table (notes, codon_start, gene "
          "functions, sec_met, NRPS/PKS domains + module, PFAM/GO, motifs, prepeptide, sideloaded areas, T2PKS, SMILES). Each state is "
          "taken through to_biopython -> SeqIO -> from_biopython, record_to_json -> record_from_json and AntismashResults.write_to_file "
          "-> from_file, twice each. Persist_Trace (TLC) decides 'same abstract record' clause by clause and 'same bytes the second "
          "time'. Seeded random universes with pipeline-ordered and arbitrary RecordSM histories are added on top."),
    design="6/C10", technique="TLA+ record-persistence spec (Persist.tla on RecordSM) + TLC generator/model check + replay on real records + TLC trace validation",
    note=TRUSTED + "Fidelity is relative to the payload table. Locations are compared as strand + ordered bases. Links derived from "
         "coordinates belong to C08; sub-gene features on origin-spanning genes to C09. One known finding class remains (whole-record "
         "vs origin-crossing candidates swap numbers on reload on rings)."),
 "C12": dict(
    text=("Persist.tla Expected/ExtractFailed define the faithful region extract (region sequence, exactly the contained features "
          "shifted, areas renumbered from 1 with resolved cross references, one region with the same members, parent unchanged). "
          "Persist_MC checks the expectation is well-formed, base-preserving, equal to Ring!Shift, one component and self-accepted, plus "
          "a wrong-sign negative control. Every region of every generated real record is written with Region.write_to_genbank (one "
          "shared Biopython record), parsed and loaded. Persist_Trace decides sequence, contained features, numbering (reloaded and "
          "raw), resolved cross references, one region with the same members, base digests, and the unchanged full record."),
    design="6/C12", technique="TLA+ record-persistence spec (Persist.tla on RecordSM) + TLC generator/model check + replay on real records + TLC trace validation",
    note=TRUSTED + "Records are pipeline-shaped. contig_edge and the topology of the extract are not judged. One known finding class "
         "remains (ring candidates swapping numbers, mirrored from C10)."),
}
CHECKS_END = None
NOT_BUILT = "not built yet (work in progress, see DESIGN.md section 10 build order)"
NA = {}

def main():
    checks = []
    for prop in props:
        pid = prop["id"]
        if pid not in CHECKS:
            continue
        info = CHECKS[pid]
        checks.append({
            "property_id": pid,
            "quick_cmd": f"./check {pid} --tier quick",
            "thorough_cmd": f"./check {pid} --tier thorough",
            "evidence_file": f"/verif/evidence/{pid}.json",
            "replay_cmd_template": f"./check {pid} --replay {{path}}",
            "engine": "tlc",
            "level_claimed": {"category": "model_checking", "text": info["text"], "design_ref": info["design"]},
            "level_note": info["note"],
            "technique": info["technique"],
        })
    manifest = {
        "version": 1,
        "setup_cmd": "./setup.sh",
        "hooks": {"guard": "ANTISMASH_VERIF",
                  "enable": "no hooks: all observation points are public calls; checks import /repo's working tree directly "
                            "(harness/common.py import_repo) in a fresh interpreter per run",
                  "baseline_off_cmd": "cd /repo && /venv/bin/python -m pytest -ra -q -p no:cacheprovider --timeout=900 "
                                      "--continue-on-collection-errors",
                  "source_commits": [], "add_only": True},
        "engines": [{"name": "tlc", "path": "/usr/local/bin/tlc", "serves_properties": sorted(CHECKS),
                     "kind_free_text": "TLA+ explicit-state model checker (TLC 1.8); specs in /verif/spec, "
                                       "trace validation through *_Trace.tla modules"}],
        "checks": checks,
        "notes": "Known findings: /verif/known_findings.json (+ known_findings/*.cases.ndjson). Fix commits in /repo start "
                 "with 'fix:'. See DESIGN.md.",
        "not_applicable": [{"property_id": p["id"], "reason": NA.get(p["id"], NOT_BUILT)} for p in props
                           if p["id"] not in CHECKS],
    }
    with open(os.path.join(HERE, "MANIFEST.json"), "w") as handle:
        json.dump(manifest, handle, indent=1)
        handle.write("\n")
    try:
        import jsonschema
        jsonschema.validate(manifest, json.load(open("/root/.vp/MANIFEST.schema.json")))
        print(f"MANIFEST.json valid: {len(checks)} checks, {len(manifest['not_applicable'])} not claimed")
    except ImportError:
        print("written (jsonschema unavailable)")

if __name__ == "__main__":
    main()
